#!/bin/bash
# Self-validation of the monitors: every patch in /verif/mutants/ and every
# /verif/seeded/<id>/patch.diff is applied to a scratch copy of /repo's working
# tree (outside /repo and /verif); the matching check must exit 1 there.
# usage: ./selftest_mutants.sh [pattern] [tier]     (never touches /repo)
cd "$(dirname "$0")"
pat="${1:-}"
tier="${2:-quick}"
fail=0
run_one() {
    patch="$1"; pid="$2"; name="$3"
    scratch="$(mktemp -d /tmp/qrv-mut-XXXXXX)"
    cp -r /repo/quantarhei "$scratch/quantarhei"; cp -r /repo/tests "$scratch/tests"
    if ! (cd "$scratch" && patch -p1 --quiet < "$patch"); then
        echo "MUTANT $name: patch does not apply"; rm -rf "$scratch"; fail=1; return
    fi
    out="$(VERIF_REPO="$scratch" ./check "$pid" --tier "$tier" --no-evidence 2>&1)"; rc=$?
    rm -rf "$scratch"
    if [ $rc -eq 1 ]; then
        echo "MUTANT $name ($pid): caught  [$(echo "$out" | grep -m1 'clause=' | cut -c1-160)]"
    else
        echo "MUTANT $name ($pid): MISSED (exit $rc)  $(echo "$out" | tail -1 | cut -c1-200)"; fail=1
    fi
}
for p in mutants/*.patch; do
    [ -e "$p" ] || continue
    name="$(basename "$p" .patch)"
    case "$name" in *"$pat"*) ;; *) continue;; esac
    pid="${name%%-*}"
    run_one "$PWD/$p" "$pid" "$name"
done
for d in seeded/*/; do
    [ -e "$d/patch.diff" ] || continue
    name="seeded/$(basename "$d")"
    case "$name" in *"$pat"*) ;; *) continue;; esac
    pid="$(python3 -c "import json,sys; print(json.load(open('$d/meta.json'))['property'])")"
    run_one "$PWD/$d/patch.diff" "$pid" "$name"
done
exit $fail
