#!/usr/bin/env python3
"""Regenerates MANIFEST.json from the table below and the check modules that exist."""
import json
import os

here = os.path.dirname(os.path.abspath(__file__))

BASELINE_OFF = ("cd /repo && env -u QUANTARHEI_VERIF /venv/bin/python -m pytest -ra -q -p no:cacheprovider "
                "--timeout=900 --continue-on-collection-errors --junitxml=/tmp/quantarhei-baseline-off.junit.xml")

COMMON_NOTE = ("Trusted: CPython 3.12, NumPy/SciPy (expm, eigh, FFT used by the oracles), the harness in /verif/qrv. "
               "Held means: no oracle violation on the executions listed in the evidence file; inputs outside the "
               "generator classes are not covered.")

P = {
 "C01": dict(tech="runtime monitoring: post-construction contracts on every relaxation-tensor class (trace/Hermiticity identities on data, on apply() of matrix units, in three bases) over seeded random systems x theory/option matrix",
             text="Randomised exploration judged by exact algebraic identities evaluated on the real tensors with rounding-level tolerances; all time indices and three bases per tensor."),
 "C02": dict(tech="runtime monitoring: stored trajectories of the real propagators compared with an independent GKSL/expm oracle under a derived Taylor truncation bound",
             text="Many short propagations (orders 2/4/6, refinements, operator/tensor form, RWA, pure dephasing) judged against scipy expm of an independently assembled Liouvillian within an a-priori truncation bound; positivity, trace, Hermiticity at every stored time."),
 "C03": dict(tech="runtime monitoring: built Hamiltonian/dipole operator compared element-wise with an independent occupation-set Frenkel reference; metamorphic permutation/unit runs",
             text="Random aggregates (N<=6, mult 1/2) compared with an independently coded Frenkel model and SI point-dipole formula from scipy.constants."),
 "C04": dict(tech="runtime monitoring: random context programs with a shadow basis stack, fault injection (exceptions incl. source-free failpoints) and a sys.monitoring leak detector on Manager bookkeeping",
             text="Random programs of enter/leave/create/read/write/protect/apply events with injected exceptions, checked at every step against a shadow model of the basis stack and at every exit against entry snapshots."),
 "C05": dict(tech="runtime monitoring: exhaustive unit-pair x accessor round trips against scipy.constants factors; sys.monitoring leak detector over every library frame for 'no call changes the caller's units'",
             text="All ordered unit pairs x inventoried accessors (exhaustive) plus nested/exceptional context programs and a frame-level detector of unit leaks across all public builder/calculator calls."),
 "C06": dict(tech="runtime monitoring: rate matrices/tensors from the real code judged by detailed-balance, conservation and golden-rule oracles (independent quadrature of the same samples + analytic bath)",
             text="Random aggregates and baths inside the resolved window; exact structural clauses at rounding level, golden-rule clauses against independent quadrature (tight) and analytic spectral density (calibrated)."),
 "C07": dict(tech="runtime monitoring: differential observation of operator-form vs tensor-form objects (apply, propagate, conversion) and analytic pure-dephasing oracle",
             text="Two representations of the same real object must act identically on random operators in several bases; TD tensor end points; exact limit against independently integrated line-shape function."),
 "C08": dict(tech="runtime monitoring: semigroup/identity/trace/Hermiticity laws and jit-vs-all histories on the real EvolutionSuperOperator, differential against direct propagation and expm",
             text="Random generators, grids, dense steps and incremental histories; algebraic laws at rounding level, refinement clause under a derived truncation bound."),
 "C09": dict(tech="runtime monitoring: addition histories (all bracketings/orders) on real bath functions checked against a sum-of-captured-components oracle and operand purity snapshots",
             text="Exhaustive bracketings/orders of 3-4 components x component types x construction units, in-place chains, refused temperature mismatches; data, lamb and operand immutability compared with captured component data."),
 "C10": dict(tech="runtime monitoring: Franck-Condon factors, state counts and vibronic matrix elements of real builds compared with closed-form displaced-oscillator (Laguerre) oracle",
             text="Random mode/level/Huang-Rhys configurations; every Hamiltonian coupling and dipole element compared with electronic value x product of closed-form overlaps."),
 "C11": dict(tech="runtime monitoring: returned spectra compared with an O(N^2) direct Fourier sum of an independently built dipole correlation function; metamorphic scale/rotation/permutation runs; purity snapshots",
             text="Random monomers/aggregates; point-wise comparison on the returned axis, peak positions, invariances at rounding level, input purity."),
 "C12": dict(tech="runtime monitoring: contract on orientational_averaging against an exact icosahedral-group SO(3) average; metamorphic rotation/scale/additivity runs of the real 2D calculator",
             text="Every pathway prefactor observed in the workload is compared with an independent exact rotational average; response invariances and additivity at rounding level."),
 "C13": dict(tech="runtime monitoring: axis round trips and transforms of the real DFunction compared with direct Fourier sums, exhaustive over lengths 2..64",
             text="All lengths 2..64 x axis types x data kinds (exhaustive sub-space) plus random longer axes; direct O(N^2) sums as oracle."),
 "C14": dict(tech="runtime monitoring: every handed-out initial state checked for finiteness/Hermiticity/positivity and against a log-domain Boltzmann oracle; FP-exception sentinel; inside/outside context differential",
             text="Temperature ladder from 0 K through underflow regime to 1000 K x systems with/without modes and baths; log-sum-exp oracle."),
 "C15": dict(tech="runtime monitoring: random call histories on shared objects with purity snapshots of every argument and memoised-result comparison for repeated calls",
             text="Histories of tensor-construction/propagate/calculate calls on shared system, propagator, hierarchy and state objects; arguments snapshotted before/after, repeated calls must return identical results."),
 "C16": dict(tech="runtime monitoring: post-construction invariant on KTHierarchy (index set, links, Gamma) against combinatorial enumeration; propagated states against closed-system expm and analytic pure dephasing",
             text="Exhaustive hierarchy shapes (baths 1-4 x depth 0-6) plus random propagations; bounded-convergence restatement over depths 1..6/8."),
 "C17": dict(tech="runtime monitoring: class invariant on RateMatrix after every set_rate with a shadow dictionary; population trajectories and propagation matrices against scipy expm under a Taylor bound",
             text="Random edit histories and generators incl. non-diagonalisable and reducible ones; sub-axes with strides and shifted starts."),
 "C18": dict(tech="runtime monitoring: save/load and export/import round trips of real objects across a matrix of unit and basis contexts, observable data compared under a common context",
             text="Cross product object kind x save context x load context, data formats x real/complex x 1-D/2-D x with/without axis."),
 "C19": dict(tech="runtime monitoring: lock-step shadow model of TwoDResponse storage driven by random and exhaustive short operation histories; all readable views compared after every step",
             text="Random histories (1-40 ops) and exhaustive short histories over a reduced alphabet; refusals must coincide with the model and leave every view unchanged."),
 "C20": dict(tech="runtime monitoring: exhaustive box of (size,start,length) through the real partition helpers; simulated rank schedule with recorded Allreduce partials for the real Redfield callers",
             text="The partition function is deterministic per (size, rank, start, stop): a finite box is enumerated completely and the reduced results of the real callers are compared with serial runs under simulated ranks."),
}

checks = []
na = []
for pid in sorted(P):
    if os.path.exists(os.path.join(here, "qrv", "checks", pid + ".py")):
        checks.append({
            "property_id": pid,
            "quick_cmd": "./check %s --tier quick" % pid,
            "thorough_cmd": "./check %s --tier thorough" % pid,
            "evidence_file": "/verif/evidence/%s.json" % pid,
            "replay_cmd_template": "./check %s --replay {path}" % pid,
            "engine": "qrv",
            "level_claimed": {"category": "exploration", "text": P[pid]["text"],
                              "design_ref": "DESIGN.md section 3, " + pid},
            "level_note": COMMON_NOTE,
            "technique": P[pid]["tech"],
        })
    else:
        na.append({"property_id": pid, "reason": "runtime-monitoring check designed (DESIGN.md section 3) but not built yet in this round; not claimed until its check exists"})

man = {
 "version": 1,
 "setup_cmd": "/venv/bin/pip install --quiet --no-index --find-links /opt/veriftools/wheels --target /verif/.deps icontract >/dev/null 2>&1; test -d /verif/.deps/icontract",
 "hooks": {
  "guard": "QUANTARHEI_VERIF",
  "enable": "no source hooks: all monitors are attached from /verif at run time (sys.monitoring, wrappers on real callables); the harness sets QUANTARHEI_VERIF=1 and puts $VERIF_REPO (default /repo) first on PYTHONPATH so the working tree is imported",
  "baseline_off_cmd": BASELINE_OFF,
  "source_commits": [],
  "add_only": True
 },
 "engines": [{"name": "qrv", "path": "/verif/qrv",
              "serves_properties": [c["property_id"] for c in checks],
              "kind_free_text": "runtime monitoring harness: seeded workload generators, worker processes running the real quantarhei code under a sys.monitoring Manager-state leak detector, contracts/wrappers on real callables, independent oracles, three-valued verdict folding"}],
 "checks": checks,
 "not_applicable": na,
 "notes": "exit 0 held / 1 violation (VIOLATION line) / 2 inconclusive (INCONCLUSIVE line). VERIF_SEED and VERIF_TIER are honoured. known_findings.json lists recorded defects and fixed: entries."
}
with open(os.path.join(here, "MANIFEST.json"), "w") as f:
    json.dump(man, f, indent=1)
print("checks:", [c["property_id"] for c in checks])
