#!/bin/bash
# runs the pinned test suite of /repo (hooks off) and compares with BASELINE.json stable_pass list
# usage: ./baseline.sh      -> prints "BASELINE ok n/n" and exits 0, or lists the stable tests that no longer pass
out=$(mktemp -d /tmp/qrv-base.XXXXXX)
cd /repo && env -u QUANTARHEI_VERIF HOME=$out MPLCONFIGDIR=$out/mpl /venv/bin/python -m pytest -ra -q -p no:cacheprovider --timeout=900 \
   --continue-on-collection-errors --junitxml=$out/j.xml > $out/log.txt 2>&1
/venv/bin/python - "$out/j.xml" <<'PY'
import sys, json, xml.etree.ElementTree as ET
b = json.load(open('/root/.vp/BASELINE.json'))
stable = None
for k, v in b.items():
    if isinstance(v, list) and k == 'stable_pass':
        stable = v
root = ET.parse(sys.argv[1]).getroot()
passed = set()
for tc in root.iter('testcase'):
    if not any(ch.tag in ('failure', 'error', 'skipped') for ch in tc):
        passed.add(tc.get('classname', '') + '::' + tc.get('name', ''))
print("passed in this run:", len(passed))
if stable:
    miss = [s for s in stable if s not in passed]
    print("BASELINE", "ok" if not miss else "BROKEN", "%d/%d" % (len(stable) - len(miss), len(stable)))
    for m in miss[:20]:
        print("  missing:", m)
    sys.exit(1 if miss else 0)
PY
rc=$?
cd /repo && git status --short | grep -v "^?? jeff" 
rm -rf $out
exit $rc
