#!/bin/bash
# usage: baseline_scratch.sh Cxx [seed-dir-root]  -- pinned suite in a fresh copy of /repo with <root>/Cxx/patch.diff applied
id=$1
d=$(mktemp -d /tmp/qrv-b5-XXXXXX)
git -C /repo archive HEAD | tar -x -C $d
( cd $d && git apply --unsafe-paths ${2:-/tmp/seed6}/$id/patch.diff 2>/dev/null || patch -p1 --quiet < ${2:-/tmp/seed6}/$id/patch.diff ) || { echo "$id patch failed"; rm -rf $d; exit 3; }
out=$d/.out; mkdir -p $out $d/.shim
cat > $d/.shim/sitecustomize.py <<PYX
import sys
try:
    import __editable___quantarhei_0_0_66_finder as f
    for k in list(f.MAPPING):
        f.MAPPING[k] = f.MAPPING[k].replace("/repo/", "$d/")
except Exception as e:
    print("shim failed", e)
PYX
( cd $d && env -u QUANTARHEI_VERIF PYTHONPATH=$d/.shim:$d HOME=$out MPLCONFIGDIR=$out/mpl /venv/bin/python -m pytest -ra -q -p no:cacheprovider --timeout=900 --continue-on-collection-errors --junitxml=$out/j.xml > $out/log.txt 2>&1 )
/venv/bin/python - "$out/j.xml" "$id" "$d" <<'PY'
import sys, json, xml.etree.ElementTree as ET
b = json.load(open('/root/.vp/BASELINE.json')); stable = b['stable_pass']
root = ET.parse(sys.argv[1]).getroot()
passed = set()
for tc in root.iter('testcase'):
    if not any(ch.tag in ('failure', 'error', 'skipped') for ch in tc):
        passed.add(tc.get('classname', '') + '::' + tc.get('name', ''))
miss = [s for s in stable if s not in passed]
print(sys.argv[2], "BASELINE", "ok" if not miss else "BROKEN", "%d/%d" % (len(stable)-len(miss), len(stable)), miss[:5])
PY
# confirm the module imported was the copy
grep -c "$d" $out/log.txt >/dev/null
tail -1 $out/log.txt; rm -rf $d
