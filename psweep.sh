#!/bin/bash
# parallel sweep: psweep.sh "<seeds>" "<tiers>" P
cd /verif
seeds="$1"; tiers="$2"; P="${3:-5}"
for t in $tiers; do for s in $seeds; do for i in $(seq -w 1 20); do echo "$s $t C$i"; done; done; done | \
 xargs -P $P -L 1 sh -c 'out=$(VERIF_SEED=$0 ./check $2 --tier $1 --no-evidence 2>&1); rc=$?; line=$(echo "$out" | grep "^$2 tier" | cut -c1-150); if [ $rc -ne 0 ]; then echo "FAIL rc=$rc seed=$0 $line"; echo "$out" | grep -A1 "^VIOLATION\|^INCONCLUSIVE" | head -4 | cut -c1-400; else echo "ok seed=$0 $line"; fi'
