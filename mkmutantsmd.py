#!/usr/bin/env python3
"""mkmutantsmd.py LOG  ->  MUTANTS.md from the output of ./selftest_mutants.sh (kept by hand after changes to the checks)"""
import re, sys, json, os, subprocess
rows = []
for line in open(sys.argv[1]):
    m = re.match(r"MUTANT (\S+) \((C\d\d)\): (caught|MISSED[^\[]*)\s*(?:\[\s*clause=(\S+))?", line)
    if m:
        rows.append((m.group(1), m.group(2), m.group(3).strip(), m.group(4) or ""))
    elif line.startswith("MUTANT") and "does not apply" in line:
        rows.append((line.split()[1].rstrip(":"), "?", "patch does not apply", ""))
head = subprocess.run(["git", "-C", "/repo", "rev-parse", "--short", "HEAD"], capture_output=True, text=True).stdout.strip()
out = ["# Mutant self-test", "",
       "Output of `./selftest_mutants.sh \"\" quick` against /repo HEAD %s: every patch in `mutants/` (hand-written, incl. one" % head,
       "`Cxx-revert-fix-<sha>` per repaired defect) and every `seeded/<id>/patch.diff` (sub-agent changes) is applied to a scratch copy;",
       "the property's quick check must exit 1.", "",
       "%d patches, %d caught, %d not caught." % (len(rows), sum(r[2] == "caught" for r in rows), sum(r[2] != "caught" for r in rows)), "",
       "| patch | property | verdict | first clause reported |", "|---|---|---|---|"]
for r in sorted(rows, key=lambda r: (r[1], r[0])):
    out.append("| %s | %s | %s | %s |" % r)
open(os.path.join(os.path.dirname(os.path.abspath(__file__)), "MUTANTS.md"), "w").write("\n".join(out) + "\n")
print(out[6])
