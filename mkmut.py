#!/usr/bin/env python3
"""mkmut.py NAME RELPATH OLD NEW [RELPATH2 OLD2 NEW2 ...] -> mutants/NAME.patch (unified diff against /repo working tree)"""
import sys, difflib, os
name = sys.argv[1]
args = sys.argv[2:]
out = []
for i in range(0, len(args), 3):
    rel, old, new = args[i:i+3]
    old = old.encode().decode("unicode_escape"); new = new.encode().decode("unicode_escape")
    src = open(os.path.join("/repo", rel)).read()
    if src.count(old) != 1:
        sys.exit("pattern occurs %d times in %s" % (src.count(old), rel))
    dst = src.replace(old, new)
    out += list(difflib.unified_diff(src.splitlines(True), dst.splitlines(True), "a/" + rel, "b/" + rel))
open(os.path.join(os.path.dirname(os.path.abspath(__file__)), "mutants", name + ".patch"), "w").write("".join(out))
print("wrote mutants/%s.patch (%d lines)" % (name, len(out)))
