#!/bin/bash
# usage: ./sweep.sh "<seeds>" "<tiers>" [props...]   -- runs checks without touching evidence, reports non-zero exits
cd "$(dirname "$0")"
seeds="${1:-1 2 3}"; tiers="${2:-quick}"; shift 2 2>/dev/null
props="${*:-C01 C02 C03 C04 C05 C06 C07 C08 C09 C10 C11 C12 C13 C14 C15 C16 C17 C18 C19 C20}"
bad=0
for t in $tiers; do for s in $seeds; do for p in $props; do
  out="$(VERIF_SEED=$s ./check $p --tier $t --no-evidence 2>&1)"; rc=$?
  line="$(echo "$out" | grep "^$p tier" | cut -c1-160)"
  if [ $rc -ne 0 ]; then bad=1; echo "FAIL rc=$rc $line"; echo "$out" | grep -A1 "^VIOLATION\|^INCONCLUSIVE" | head -6 | cut -c1-400; else echo "ok   $line"; fi
done; done; done
exit $bad
