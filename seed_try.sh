#!/bin/bash
# usage: ./seed_try.sh Cxx [tier]   -- applies /tmp/seed/Cxx/patch.diff to a scratch copy, runs demo (both ways) and the check
cd "$(dirname "$0")"
pid="$1"; tier="${2:-quick}"; src="${3:-/tmp/seed/$pid}"
scratch="$(mktemp -d /tmp/qrv-seed-XXXXXX)"; mkdir -p "$scratch/home"
cp -r /repo/quantarhei "$scratch/quantarhei"; cp -r /repo/tests "$scratch/tests"
( cd "$scratch" && HOME="$scratch/home" PYTHONPATH="$scratch" timeout 600 /venv/bin/python -W ignore "$src/demo.py" >/dev/null 2>&1 ); r0=$?
if ! (cd "$scratch" && patch -p1 --quiet < "$src/patch.diff"); then echo "$pid: patch does not apply"; rm -rf "$scratch"; exit 3; fi
( cd "$scratch" && HOME="$scratch/home" PYTHONPATH="$scratch" timeout 600 /venv/bin/python -W ignore "$src/demo.py" >/dev/null 2>&1 ); r1=$?
out="$(VERIF_REPO="$scratch" ./check "$pid" --tier "$tier" --no-evidence 2>&1)"; rc=$?
rm -rf "$scratch"
echo "$pid: demo clean=$r0 patched=$r1 | check($tier) exit=$rc | $(echo "$out" | grep -m1 'clause=' | cut -c1-200)"
