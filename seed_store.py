# usage: /venv/bin/python seed_store.py Cxx [srcdir [destname]]   -- copies /tmp/seed/Cxx/{patch.diff,demo.py,notes.txt} into seeded/Cxx, runs seed_try.sh on both tiers, writes meta.json
import json, os, shutil, subprocess, sys, re
META = {
 "C01": ("cRF time-dependent tensor: Foerster gain terms added without the compensating loss term (trace no longer preserved)",
         "get_RelaxationTensor(relaxation_theory='cRF', time_dependent=True, coupling_cutoff=c) with at least one coupling below the cut-off (the Foerster part non-zero)"),
 "C02": ("tensor-form propagation with a PureDephasing object: `rho1 = rho2` dedented out of the refinement loop, so only one of Nref sub-steps propagates",
         "ReducedDensityMatrixPropagator with a tensor-form (as_operators=False) time-independent relaxation tensor, a PureDephasing object and Nref > 1"),
 "C03": ("two-exciton states differing on four molecules (|1100>,|0011>) get a non-zero coupling", "aggregate with >= 4 molecules built with mult=2 and non-zero resonance couplings"),
 "C04": ("SelfAdjointOperator.get_diagonalization_matrix caches eigenvectors keyed on the identity of the _data array: in-place writes are not seen",
         "context of an operator entered once without the operator being transformed (not read inside, or protected), then the operator written in place (element write through .data, Operator.__add__, remove/subtract/recover_cutoff_coupling), then its context entered again"),
 "C05": ("Hamiltonian.remove_cutoff_coupling compares the stored (internal units) couplings with a cut-off given in the current units",
         "remove_cutoff_coupling / diagonalize(coupling_cutoff=) / get_RelaxationTensor('cRF', coupling_cutoff=) called inside a non-internal energy_units context"),
 "C06": ("Foerster rate uses the acceptor's reorganisation energy where the donor's belongs: detailed balance w.r.t. E+lambda instead of E-lambda",
         "Foerster rates between sites with different reorganisation energies"),
 "C07": ("operator-form propagation without dephasing: `rho1 = rho2` dedented out of the refinement loop", "time-independent tensor in operator form, Nref > 1, no field, no PureDephasing"),
 "C08": ("jit mode of EvolutionSuperOperator composes n-1 instead of n dense steps", "EvolutionSuperOperator with mode='jit' (calculate_next), set_dense_dt(n) with n >= 2, time-independent tensor"),
 "C09": ("CorrelationFunction.__init__ builds every component with the analytic type of the last component", "a correlation function that is a sum of components of different ftype, rebuilt from its parameter list (left operand of +, copy, s += s)"),
 "C10": ("fc_factor locates a monomer's modes at nn*nmod instead of the sum of the preceding monomers' mode counts", "vibronic aggregate whose molecules carry different numbers of modes"),
}

META.update({
 "C11": ("exciton line-shape coefficients read from a row instead of a column of the eigenvector matrix (`_excitonic_coft`)",
         "AbsSpectrumCalculator on an aggregate of >= 3 sites genuinely mixed by coupling; large with different site baths, ~0.3 % with identical baths; dimers unaffected"),
 "C12": ("rephasing ESA pathways (R1f*) filtered with the absolute population tolerance 1e-3 instead of the relative dipole tolerance",
         "aggregate built with mult=2 and a two-exciton -> one-exciton transition with |d|^2 < 1e-3: common scale factor <~ 0.03-0.1 or one molecule with |d| <~ 0.03"),
 "C13": ("forward FT on complete TimeAxis uses fftshift where ifftshift is needed (phase ramp for odd lengths)", "TimeAxis of type 'complete' with odd length, forward transform"),
 "C14": ("`if temperature is None` -> `if not temperature`: an explicit temperature=0 is overridden by the bath temperature",
         "aggregate with a bath that carries a temperature, get_DensityMatrix(..., temperature=0 or 0.0), state visibly different at 0 K (thermal_excited_state, or thermal with a low-frequency mode)"),
 "C15": ("non-equilibrium Foerster tensor accumulates its inhomogeneous term in a persistent buffer across propagate() calls",
         "relaxation_theory='neF' with time_dependent=True, non-zero coupling, at least two propagations using the same tensor object"),
 "C16": ("duplicate test of hierarchy multi-indices through a separator-less string key: (11,0) and (1,10) collide", "KTHierarchy with >= 2 baths and depth >= 11"),
 "C17": ("get_PropagationMatrix: leading shift handled with round() and a positive-remainder guard, overshoots when the fractional shift exceeds one half step",
         "sub-axis whose start is shifted from the propagator's axis start by a non-integer number of sub-axis steps with fractional part > 0.5"),
 "C18": ("AbsSpectrum.save_data writes its axis in internal units while load_data reads it in the current units", "AbsSpectrum export/import pair made inside a non-internal energy-units context; only the axis is wrong"),
 "C19": ("signal-level accumulation done in place (`odata += data`) on an array that may be the caller's or shared between two signal slots",
         "storage resolution 'signals', at least two additions to one slot, the same ndarray object used for more than one addition (as the package's own mock calculator does)"),
 "C20": ("_calculate_ranges caches the block table keyed on (length, size) without the range start",
         "parallel branch active and two consecutive distributed ranges of the same length and process count but different start on the same configuration object"),
})

META2 = {
 "C01": ("legacy secularize() works on the raw storage instead of the basis-managed data: secularises in whatever basis the tensor was last stored in",
         "tensor-form tensor created/last used outside, then `with eigenbasis_of(H): R.secularize()` with no read of R.data inside the context beforehand"),
 "C02": ("ReducedDensityMatrixPropagator caches the effective (RWA) Hamiltonian matrix on first use, keyed on the basis id only",
         "the same propagator instance used twice with set_rwa() switched on/changed or ham.data assigned in between"),
 "C03": ("dipole_dipole_interaction normalises the connecting vector in place (`R /= RR`): raises for integer positions, and the callers swallow the error and store zero coupling",
         "positions given as integers (lists of ints / int arrays) for both molecules of a pair, set_coupling_by_dipole_dipole"),
 "C04": ("BasisManaged.__copy__ registers the copy only if the original is already in the manager's current basis",
         "nested contexts; object touched in the outer context only; copy.copy() made in the inner context and not read there; (patch re-based on the tree after fix e895416)"),
 "C05": ("units contexts remember the units active when the context OBJECT was created instead of when it is entered",
         "a context object kept in a variable (e_units = qr.energy_units('1/cm')) and entered under other units than it was created in; nesting or later re-use"),
 "C06": ("SpectralDensity.get_FTCorrelationFunction(temperature=T) only fills in a missing T instead of overriding the stored one",
         "a spectral density with T in its parameters (or derived from a correlation function, or used before) asked for bath functions at another temperature"),
 "C07": ("operator-form apply() takes a Hermitian shortcut for SelfAdjointOperator subclasses (A + A^dagger)",
         "operator-form Redfield/Lindblad tensor, apply() on a ReducedDensityMatrix/DensityMatrix whose data were filled with non-Hermitian content after construction"),
 "C08": ("multi-time EvolutionSuperOperator.apply() reads the raw storage instead of the basis-managed data",
         "apply('all' | axis | list of times) inside eigenbasis_of() with no earlier read of the superoperator in that context"),
 "C09": ("CorrelationFunction.copy() of functions with non-overdamped components shares the data array with the original",
         "function containing an UnderdampedBrownian component, copy(), then an in-place addition to the copy or the original"),
 "C10": ("displacement operator exponentiated in a 20-level instead of a 100-level basis before the 20x20 table is taken",
         ">= ~12 vibrational levels with HR ~ 1, or HR >= 4 with >= 6 levels; orthogonality still holds"),
 "C11": ("retained frequency axis of absorption spectra starts at rwa - (Nt//2) dw: one step too high for odd Nt",
         "TimeAxis with an odd number of points"),
 "C12": ("R1f* pathways take the Hermitian-conjugate element of the evolution superoperator during t2",
         "mult=2, t2 > 0, at least two bright one-exciton states of different energy, coherences kept by the evolution"),
 "C13": ("FrequencyAxis.get_TimeAxis reads the units-managed centre frequency outside its energy_units('int') block",
         "get_TimeAxis() called inside a non-internal energy-units context on a frequency axis not centred at zero"),
 "C14": ("T = 0 branch of _thermal_population takes argmin of the bare instead of the relaxed (E - lambda) site energies",
         "thermal_excited_state, strong_coupling, temperature exactly 0, site-dependent baths that re-order the relaxed energies"),
 "C15": ("Hamiltonian.get_RWA_data cached with a key computed before the Hamiltonian is transformed to the context basis",
         "Hamiltonian with RWA; a propagate() outside any context followed by a propagate() inside eigenbasis_of(ham) on the same objects"),
 "C16": ("KTHierarchy structure (including Gamma) cached per (nbath, depth)",
         "two hierarchies of equal shape but different bath correlation times built in one process"),
 "C17": ("_split_relaxation_matrix zeroes the diagonal of the propagator's (= the user's) rate matrix in place",
         "get_PropagationMatrix(corrections >= 0) with a RateMatrix or float64 array, then anything done afterwards with the propagator or the rate matrix"),
 "C18": ("ValueAxis drops its value array from the pickled state and rebuilds it on load from units-managed start/step",
         "object with a FrequencyAxis saved without a units context and loaded inside a non-internal energy-units context"),
 "C19": ("`if self.current_tag is not None` -> `if self.current_tag`: falsy tags (0, '') are treated as no tag",
         "pathways resolution, a tagged addition with tag 0 or '' to a type that already holds another pathway"),
 "C20": ("delta terms of the Redfield tensor moved before the distributed loop: every rank adds them, the reduction counts them `size` times",
         "Redfield tensor in tensor form computed on more than one (simulated) process"),
}

META3 = {
 "C01": ("TD Redfield operator form: Ld transformed with conjugated, un-reversed factors (rotates with the inverse transformation)",
         "stR time_dependent + as_operators, three or more sites (non-symmetric eigenvector matrix), a basis change (get_RelaxationTensor leaves its own context); patch re-based after fix cca1d7a"),
 "C02": ("operator-form branch called without the expansion order: always 4th order", "time-independent operator-form tensor, method short-exp-2 or short-exp-6"),
 "C03": ("transition dipole operator created on demand from DD, which diagonalize() transforms in place", "build(), then diagonalize() (or first request inside a context), then the first get_TransitionDipoleMoment()"),
 "C04": ("__exit__ uses the transpose of the transformation matrix instead of its inverse", "context operator with complex off-diagonal elements (unitary, not orthogonal transformation)"),
 "C05": ("Hamiltonian.set_rwa reads the diagonal before entering its internal-units block", "set_rwa / Molecule.set_electronic_rwa called inside a non-internal units context"),
 "C06": ("Redfield rate matrix zeroes every off-diagonal rate below 1e-6 1/fs, not only negative noise", "an uphill rate slower than ~1/ns (low temperature, steep funnel)"),
 "C07": ("convert_2_tensor no longer sets _data_initialized, the flag TDRedfieldRelaxationTensor.transform() keys on", "TD operator-form tensor, convert_2_tensor(), then a basis change"),
 "C08": ("elemental step propagates half of the matrix units and fills the rest by Hermitian conjugation", "generator that does not commute with Hermitian conjugation (non-symmetric pure-dephasing rates)"),
 "C09": ("memoised underdamped component handed out without a copy", "UnderdampedBrownian component as first component of a function that is later added to in place"),
 "C10": ("negative-shift branch of fc_factor swaps the whole vibrational signatures instead of one mode's quanta", "two or more displaced modes on one molecule (or a negative shift followed by a displaced mode)"),
 "C11": ("supplied tensor transformed back before the lifetime rates (views for TD tensors) are used", "aggregate path with a time-dependent relaxation tensor"),
 "C12": ("R2f* line shape taken from transition (f,i2) instead of (f,i3)", "mult=2, molecules with different Gaussian widths"),
 "C13": ("Hermitian extension for upper-half axes decided by a stale _has_imag flag", "upper-half TimeAxis, complex values set through apply_to_data / .data assignment"),
 "C14": ("strong-coupling thermal excited state reads site energies from the raw HH array (overwritten by diagonalize())", "thermal_excited_state, strong_coupling, finite T, after agg.diagonalize()"),
 "C15": ("setDtRefinement divides the already refined step", "the same propagator asked twice for a refinement > 1"),
 "C16": ("raising terms of the hierarchy accumulated with fancy-index += (repeated targets lose contributions)", ">= 2 baths, depth >= 2, a coherence between two excited sites (or any coupled aggregate); optical coherences unaffected"),
 "C17": ("is_subset_of too strict by stride-1 points", "coarser axis with stride > 1 whose last point lies within the last stride-1 points of the fine axis"),
 "C18": ("DFunction splines dropped from the pickle and rebuilt on load over the units-managed axis data", "DFunction on a FrequencyAxis with splines initialised, loaded inside a non-internal units context; only at() in spline mode is wrong"),
 "C19": ("try/except around the whole loop of _signals_to_total: the first missing signal drops all later ones", "signals storage with an earlier signal missing (only NONR, only DC, REPH+DC), total read or reduction to off"),
 "C20": ("enumerate() without start in the shared branch of block_distributed_list/array(return_index=True)", "more than one process, return_index=True, a non-empty block on rank > 0"),
}

META4 = {
 "C01": ("sparsity shortcut in _loopit (only index pairs where Km is non-zero) with the delta terms kept in full", "operator-form Redfield tensor created in the exciton basis and converted (convert_2_tensor / secularize) in the site basis, coupled sites"),
 "C02": ("Gaussian pure dephasing evaluated at the end instead of the beginning of each step in the operator-form branch", "operator-form tensor + PureDephasing(dtype='Gaussian') + coherences"),
 "C03": ("row-wise try/except in set_coupling_by_dipole_dipole: the first singular pair of a row drops the rest of the row", ">= 3 molecules, two of them at the same position (not the last pair of their row)"),
 "C04": ("managed-array setters relabel the object instead of transforming it when it is written before being read in a context", "object with more than one basis-dependent array (Hamiltonian with remainder coupling JR); first touch inside the context is an assignment to .data"),
 "C05": ("FrequencyAxis.get_TimeAxis reads the units-managed centre frequency outside its internal-units block (the same slip as C13-b, found independently)", "get_TimeAxis inside a non-internal units context, axis not centred at zero"),
 "C06": ("TD Redfield rates: integrals shared between sites that share a bath object, skipped where the FIRST such site does not couple the pair", "TDRedfieldRateMatrix, one CorrelationFunction object shared by >= 3 sites, a pair of exciton states with a tiny amplitude product on the first site"),
 "C07": ("TD operator-form propagation computes the four Redfield terms as two Hermitian-conjugate pairs", "time-dependent tensor in operator form propagating a non-Hermitian operator (coherence, matrix unit, A+iB)"),
 "C08": ("elemental step memoised on the object keyed on the dense step only", "the same EvolutionSuperOperator calculated twice with the generator changed in between (set_rwa, or a basis context)"),
 "C09": ("SpectralDensity.__add__ builds the sum from values and shares the left operand's parameter list", "SpectralDensity binary +, then re-use of an object that has been a left operand"),
 "C10": ("Franck-Condon matrices memoised per pair of electronic signatures, surviving rebuild()", "build, change a mode's HR/shift, rebuild()/build() on the same Aggregate"),
 "C11": ("basis transformation of dipoles/tensor skipped when the Hamiltonian is diagonal (eigh still sorts)", "uncoupled aggregate with site energies not in ascending order and different dipoles/baths"),
 "C12": ("second and third polarisation invariants of LabSetup written to swapped slots", "crossed polarisation sequences (XYXY, generic) and pathways through an inter-exciton coherence; spectra differ only for >= 3 coupled molecules"),
 "C13": ("TimeAxis.get_FrequencyAxis calls shift_to_zero() on the caller's axis (upper-half)", "upper-half TimeAxis with positive start; hidden by aliasing unless compared with the axis as specified"),
 "C14": ("strong-coupling reorganisation energies looked up with the electronic instead of the vibronic ground-band offset", "strong-coupling thermal_excited_state, ground state with vibrational levels, site-dependent baths"),
 "C15": ("_split_relaxation_matrix zeroes the caller's rate-matrix diagonal in place (the same slip as C17-b, found independently)", "get_PropagationMatrix(corrections >= 0), then anything else with the same rate matrix"),
 "C16": ("link search restricted to one component: ambiguous for >= 3 baths", "three or more baths; links point to wrong existing indices, site-site coherences stop converging"),
 "C17": ("set_rate returns early when numpy.isclose(value, current)", "rates below ~1e-8/fs into an empty slot, or small refinements of an existing rate"),
 "C18": ("text import of density-matrix evolutions fills the lower triangle in tril order", ".dat/.txt round trip of a (Reduced)DensityMatrixEvolution with N >= 4 and complex coherences"),
 "C19": ("sums over pathways memoised with a key made of the stored (type, tag) pairs", "pathways storage, two untagged type-level additions to one type with a view read in between"),
 "C20": ("block_distributed_range distributes whenever parallel_level > 0", "nested parallel regions (a library routine called inside a user's region) on more than one process"),
}
META5 = {
 "C01": ("secularize() of the time-dependent tensor decides secular terms by a frequency criterion instead of the index pattern", "degenerate exciton levels (symmetric ring: equal energies and couplings), time-dependent tensor, secularize()"),
 "C02": ("convert_from_RWA assumes a single rotating-wave frequency (first excited block) for all blocks", "three or more RWA blocks whose mean energies are not equidistant; evolution converted back to the laboratory frame"),
 "C03": ("the aggregate keeps a reference to each molecule's elenergies array taken at add_Molecule and builds from it", "molecule.elenergies assigned (array replaced) after the molecule was added, then build()/rebuild()"),
 "C04": ("eigenbasis_of.__enter__ for a protected operator multiplies the stacked transformations in reversed order", "protected operator stored >= 2 nesting levels behind the current basis, dimension >= 3, non-commuting outer transformations"),
 "C05": ("Molecule.get_Hamiltonian (molecule with modes): zero-of-energy subtraction and set_rwa dedented out of the internal-units block", "molecule with at least one vibrational mode; first (or recalculating) get_Hamiltonian call inside a non-internal energy-units context"),
 "C06": ("RedfieldRelaxationTensor.convert_2_tensor reads the raw _Km/_Lm/_Ld storage instead of the basis-managed accessors", "operator-form tensor created in one context, converted as the first touch inside a later eigenbasis context"),
 "C07": ("ReducedDensityMatrixPropagator captures tensor.as_operators at construction", "propagator built before convert_2_tensor()/secularize() and used after it inside another basis"),
 "C08": ("five-index SuperOperator.transform done by one einsum that uses S where conj(S) is needed", "complex Hermitian Hamiltonian (unitary eigenvectors), evolution superoperator calculated outside and used inside eigenbasis_of, or vice versa"),
 "C09": ("CorrelationFunction.__add__ re-uses the data array of a numerically defined left operand", "sum whose left operand is defined by values; the operand is inspected afterwards"),
 "C10": ("Aggregate.coupling computes the Franck-Condon factor only inside the same-band branch (inter-band couplings lose it)", "build(mult>=2, fem_full=True) or coupling(s1, s2, full=True) with vibrational modes"),
 "C11": ("absorption calculator restores the Hamiltonian with undiagonalize() (which re-adds the remainder coupling) instead of transform(S^-1)", "effective Hamiltonian with remainder coupling (combined Redfield-Foerster with a coupling cut-off); Hamiltonian inspected or spectrum recalculated afterwards"),
 "C12": ("mock 2D calculator memoises peak line shapes keyed on (shape, type, centre1, centre3) without the widths", "uncoupled molecules with exactly equal transition energies and different widths"),
 "C13": ("FrequencyAxis.get_TimeAxis (complete axes) snaps a start with |start| < 1e-8 to zero (absolute instead of step-relative tolerance)", "complete axes on a fine scale of the variable (steps ~1e-9 and smaller) with a non-zero start"),
 "C14": ("canonical populations count energies from the first level instead of the lowest one", "strong-coupling thermal excited state with a site several hundred kT below the first one (exp overflow -> nan)"),
 "C15": ("TD tensor-form propagation reads the raw _data of the tensor once before the loops", "propagate() inside a basis context in which the time-dependent tensor has not been read yet"),
 "C16": ("HEOM free term computed by einsum as H.rho - rho.H^T", "Hermitian Hamiltonian with complex couplings J exp(i phi)"),
 "C17": ("PopulationPropagator.propagate allocates the result with the dtype of the initial populations", "initial populations given as an integer array such as array([1, 0, 0])"),
 "C18": ("text export of density-matrix evolutions writes the lower triangle in tril order", ".dat/.txt round trip of an evolution with N >= 4 and complex coherences"),
 "C19": ("conversion from storage by types to storage by signals sums only the rephasing and non-rephasing signals (the double-coherence signal R3fs+R4fs is dropped)", "contributions of types R3fs/R4fs, then a reduction that passes through types -> signals"),
 "C20": ("distributed Redfield rate calculation slices the correlation-function integrals with the local block offset", "Redfield rates computed on more than one (simulated) process"),
}
META6 = {
 "C01": ("five-index RelaxationTensor.transform rewritten with einsum; the fourth tensor index is transformed with S instead of the inverse", "time-dependent Foerster / combined Redfield-Foerster tensor read in a basis reached by a unitary matrix with complex elements"),
 "C02": ("state-vector propagation accumulates the Taylor terms in place on the caller's storage (asarray without copy)", "complex128 initial StateVector used again after a propagation"),
 "C03": ("per-aggregate cache of site dipoles filled on first use and not reset by clean()/rebuild()", "molecule.dmoments replaced as a whole, or a deepcopy/scopy of a built aggregate changed and rebuilt"),
 "C04": ("DensityMatrixEvolution.set_initial_condition registers the evolution with the current basis unconditionally (double registration)", "set_initial_condition inside a context on an evolution already registered there"),
 "C05": ("CorrelationFunction re-uses one shared energy_units('int') context object (not re-entrant: nested entry overwrites its backup)", "copy(), + or += of an UnderdampedBrownian correlation function inside a non-internal units context"),
 "C06": ("Foerster integrals memoised under a key that loses which site is the donor", "sites with different baths and equal bare energies (or two equal gaps with swapped baths)"),
 "C07": ("TD Redfield: for real-valued correlation functions only half of the frequency integrals are computed, the other half filled without the complex conjugate", "real-valued (value-defined) bath correlation functions, coupled sites, full tensor compared"),
 "C08": ("EvolutionSuperOperator.apply at a single time writes the result into the target's existing array", "state whose matrix is stored as a real or integer array, coherent dynamics"),
 "C09": ("add_to_data adds the other function's reorganisation energy through the units-converting accessor", "a + b evaluated inside a non-internal energy-units context"),
 "C10": ("early exit in transition_dipole comparing mode positions of the vibrational signature with a molecule index", "a molecule with two or more modes, or a mode-less molecule in front of one with modes"),
 "C11": ("monomer branch takes the line position from get_energy(1) instead of the transition energy", "molecule whose ground-state energy is not zero"),
 "C12": ("liouville_pathways_3T keeps an alias of the superoperator data read inside eigenbasis_of (transformed back on exit)", "pathways generated with the complete EvolutionSuperOperator passed directly, t2 > 0, eigenbasis different from the site basis"),
 "C13": ("memo of the last (inverse) Fourier transform keyed on the identity of the values array", "values changed in place between two transforms of the same DFunction"),
 "C14": ("get_thermal_ReducedDensityMatrix diagonalises the raw H._data instead of entering eigenbasis_of(H)", "request made inside a basis context before H.data was touched there; molecule with two modes or thermally mixed levels"),
 "C15": ("EvolutionSuperOperator converts the caller's operator-form tensor to tensor form in place before the unit propagations", "evolution superoperator over an operator-form tensor shared with a propagator"),
 "C16": ("sub-stepping added to KTHierarchyPropagator.propagate with the reduced step written back into self.dt", "max(Gamma) dt > 1 (fast baths, deep hierarchy, coarse step) and a second propagate() on the same propagator"),
 "C17": ("symmetric fast path (allclose + eigh) for the exponential in get_PropagationMatrix", "rate matrices that are almost but not exactly symmetric (sixth-digit differences, or slow channels below 1e-8/fs)"),
 "C18": ("savedir re-reads the tag index only when the directory name changed since this object's last save", "A.savedir(d); B.savedir(d); A.savedir(d), or an object loaded from the directory saved into it again"),
 "C19": ("resolution conversion walks down step by step and raises only when it runs out of levels (a refused processes -> signals request collapses the storage to 'off' first)", "set_resolution('signals') on a response stored by processes, object inspected after the refusal"),
 "C20": ("fewer indices than processes: block ends computed as min(rank+1, stop) instead of min(rank+1, remainder)", "range shorter than the number of processes with a non-zero start"),
}
META7 = {
 "C01": ("Secular._secularize_data: five-index data multiplied by the sum of the two Kronecker patterns, which overlap on [a,a,a,a] (depopulation elements doubled)", "secularize(legacy=False) on a time-dependent tensor with five-index data (TD Foerster, TD combined Redfield-Foerster)"),
 "C02": ("pure-dephasing factors kept between propagate() calls, keyed on (id(PDeph), dtype, dt) without the rates", "dephasing rates of the PureDephasing object changed between two runs of the same propagator"),
 "C03": ("add_Molecule re-creates an existing coupling matrix from its upper-left block (a full matrix given before the molecules is cropped to zeros)", "Aggregate(); set_resonance_coupling_matrix(J); add_Molecule(...) for each molecule; build()"),
 "C04": ("SelfAdjointOperator.get_diagonalization_matrix returns the identity for an operator that is already diagonal", "context operator that is diagonal with a non-ascending diagonal"),
 "C05": ("Molecule.get_diabatic_coupling caches the converted value per element, without the active units in the key", "the same element of the same molecule read twice under different units"),
 "C06": ("TDRedfieldRateMatrix transforms the caller's sbi.KK in place (asarray instead of copy)", "time-dependent rates computed first, other Redfield quantities from the same system-bath interaction object afterwards"),
 "C07": ("operator-form TD propagation no longer flags its result as rotating-frame data", "TD Redfield tensor in operator form, Hamiltonian with RWA, frames compared (is_in_rwa / convert_from_RWA)"),
 "C08": ("multi-time apply() steps through the grid with a stride int(step ratio) (truncated, not rounded)", "apply() with a list/array/axis of times whose step is an inexact multiple of the grid step (0.3/0.1)"),
 "C09": ("number of Matsubara terms kept on the object instead of per component", "an OverdampedBrownian component with matsubara set followed by one without, composite rebuilt from its parameters"),
 "C10": ("Molecule._overlap_other compares sums of the other modes' quantum numbers instead of each of them", "a single molecule with three or more modes (Molecule.get_Hamiltonian)"),
 "C11": ("loop over exciton transitions ends at Nb[1] when the aggregate was built with mult > 1 (highest one-exciton state skipped)", "aggregate built with mult=2"),
 "C12": ("total signal buffered on first read; devide_by() rescales the stored parts in place without resetting the buffer", "total read, devide_by(), total read again (normalisation to the maximum)"),
 "C13": ("windowed transform on upper-half axes: the Hermitian extension uses the un-windowed values", "get_Fourier_transform(window=...) on an upper-half axis"),
 "C14": ("reorganisation energies subtracted also when a relaxation Hamiltonian is supplied", "strong-coupling thermal excited state with relaxation_hamiltonian=..., sites with different reorganisation energies"),
 "C15": ("in-place accumulation on the caller's initial state in the array-field route with a time-dependent tensor", "propagator with Efield (array) and Trdip, time-dependent tensor in tensor form, state object used again"),
 "C16": ("every bath gets the correlation time of the last bath (stale loop variable)", "two or more baths with different correlation times"),
 "C17": ("single-step matrix of propagate() memoised on the identity of the rate-matrix object", "propagate, edit the rates in place (set_rate / element assignment), propagate again on the same propagator"),
 "C18": ("loaddir caches the objects it has read and hands the same objects out again", "savedir, loaddir, in-place change of a loaded object, loaddir again"),
 "C19": ("total at pathway resolution summed over get_all_data(), whose string keys collide for tags with the same string form", "two pathways of one type tagged 1 and '1', total read at pathway resolution"),
 "C20": ("all-reduce of the Lambda operators removed from the distributed Redfield tensor construction", "as_operators=True on more than one process"),
}
pid = sys.argv[1]
src = sys.argv[2] if len(sys.argv) > 2 else "/tmp/seed/" + pid
dname = sys.argv[3] if len(sys.argv) > 3 else pid
dst = "/verif/seeded/" + dname
if dname.endswith("-b"):
    META = META2
elif dname.endswith("-c"):
    META = META3
elif dname.endswith("-d"):
    META = META4
elif dname.endswith("-e"):
    META = META5
elif dname.endswith("-f"):
    META = META6
elif dname.endswith("-g"):
    META = META7
os.makedirs(dst, exist_ok=True)
for f in ("patch.diff", "demo.py"):
    shutil.copy(os.path.join(src, f), os.path.join(dst, f))
if os.path.exists(src + "/notes.txt"):
    shutil.copy(src + "/notes.txt", dst + "/notes.txt")
res = {}
for tier in ("quick", "thorough"):
    out = subprocess.run(["/verif/seed_try.sh", pid, tier, dst], capture_output=True, text=True).stdout.strip()
    m = re.search(r"demo clean=(\d+) patched=(\d+) \| check\(\w+\) exit=(\d+) \| (.*)", out)
    res[tier] = {"demo_exit_unmodified": int(m.group(1)), "demo_exit_with_change": int(m.group(2)), "check_exit": int(m.group(3)), "first_clause": m.group(4).strip()[:160]}
    print(out[:200])
head = subprocess.run(["git", "-C", "/repo", "rev-parse", "--short", "HEAD"], capture_output=True, text=True).stdout.strip()
meta = {"property": pid, "origin": "fresh sub-agent given only the property text and a scratch worktree" + (" (second round: asked to aim at a different clause than the first seed)" if dname.endswith("-b") else (" (third round: two earlier targets excluded, list of hard-to-notice kinds of change given)" if dname.endswith("-c") else (" (fourth round: three earlier targets excluded)" if dname.endswith("-d") else (" (fifth round: four earlier targets excluded)" if dname.endswith("-e") else (" (sixth round: five earlier targets excluded, a clause to aim at named)" if dname.endswith("-f") else (" (seventh round: six earlier targets excluded, free choice of clause)" if dname.endswith("-g") else "")))))),
        "what": META[pid][0], "needs_to_manifest": META[pid][1],
        "confirmed": {"repo_head": head, "patch_applies": True,
                      "pinned_suite_with_change": "148/148 stable tests pass (pinned suite run on the tree with the change applied: ./baseline.sh on /repo, or ./baseline_scratch.sh on a scratch copy for round 5)",
                      "demo": "demo.py exits %d on the unmodified package and %d with the change (PYTHONPATH=scratch copy)" % (res["quick"]["demo_exit_unmodified"], res["quick"]["demo_exit_with_change"]),
                      "check": res},
        "caught_by": {t: (res[t]["first_clause"].split(" mechanism")[0] if res[t]["check_exit"] == 1 else None) for t in res}}
json.dump(meta, open(dst + "/meta.json", "w"), indent=1)
