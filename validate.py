#!/usr/bin/env python3
"""validate MANIFEST.json and evidence/*.json against the schemas (python3-vt has jsonschema)"""
import json, sys, glob, os
import jsonschema
here = os.path.dirname(os.path.abspath(__file__))
ok = True
man = json.load(open(os.path.join(here, "MANIFEST.json")))
try:
    jsonschema.validate(man, json.load(open("/root/.vp/MANIFEST.schema.json")))
    print("MANIFEST ok: %d checks, %d not_applicable" % (len(man["checks"]), len(man.get("not_applicable", []))))
except Exception as e:
    ok = False; print("MANIFEST INVALID", e)
es = json.load(open("/root/.vp/EVIDENCE.schema.json"))
for f in sorted(glob.glob(os.path.join(here, "evidence", "C*.json"))):
    try:
        e = json.load(open(f)); jsonschema.validate(e, es)
        c = e["coverage"]
        print("%s ok tier=%s evals=%d distinct=%d checks=%d viol=%s wall=%.0fs" % (os.path.basename(f), e["tier"], c["evaluations"], c["distinct_nontrivial"], c.get("oracle_evaluations", -1), e.get("violations"), e["wall_s"]))
    except Exception as ex:
        ok = False; print(f, "INVALID", str(ex)[:300])
sys.exit(0 if ok else 1)
