#!/bin/bash
# parallel version of selftest_mutants.sh: usage ./selftest_par.sh [pattern] [tier] [P]   (never touches /repo)
cd "$(dirname "$0")"
pat="${1:-}"; tier="${2:-quick}"; P="${3:-6}"
list=$(mktemp /tmp/qrv-mutlist-XXXXXX)
for p in mutants/*.patch; do
    name="$(basename "$p" .patch)"; case "$name" in *"$pat"*) ;; *) continue;; esac
    echo "$PWD/$p ${name%%-*} $name" >> $list
done
for d in seeded/*/; do
    [ -e "$d/patch.diff" ] || continue
    name="seeded/$(basename "$d")"; case "$name" in *"$pat"*) ;; *) continue;; esac
    pid="$(python3 -c "import json,sys; print(json.load(open('$d/meta.json'))['property'])")"
    echo "$PWD/${d}patch.diff $pid $name" >> $list
done
export tier
xargs -P $P -L 1 sh -c '
  patch="$0"; pid="$1"; name="$2"
  scratch="$(mktemp -d /tmp/qrv-mut-XXXXXX)"
  cp -r /repo/quantarhei "$scratch/quantarhei"; cp -r /repo/tests "$scratch/tests"
  if ! (cd "$scratch" && patch -p1 --quiet < "$patch" >/dev/null 2>&1); then echo "MUTANT $name: patch does not apply"; rm -rf "$scratch"; exit 0; fi
  out="$(VERIF_REPO="$scratch" ./check "$pid" --tier "$tier" --no-evidence 2>&1)"; rc=$?
  rm -rf "$scratch"
  if [ $rc -eq 1 ]; then echo "MUTANT $name ($pid): caught  [$(echo "$out" | grep -m1 "clause=" | cut -c1-160)]"
  else echo "MUTANT $name ($pid): MISSED (exit $rc)  $(echo "$out" | tail -1 | cut -c1-200)"; fi
' < $list | sort
rm -f $list
