"""Shared generator/builder of relaxation-tensor configurations (C01, C07, C15)."""
import io
import contextlib
import numpy
from qrv import build
from qrv.build import r3

CM2INT = 1.8836515673088532e-4

# (label, theory, kwargs) through OpenSystem.get_RelaxationTensor
OPEN_CONFIGS = [
    ("stR", "stR", {}),
    ("stR-ops", "stR", {"as_operators": True}),
    ("stR-sec", "stR", {"secular_relaxation": True}),
    ("stR-TD", "stR", {"time_dependent": True}),
    ("stR-TD-sec", "stR", {"time_dependent": True, "secular_relaxation": True}),
    ("stR-TD-cut", "stR", {"time_dependent": True, "relaxation_cutoff_time": "CUT"}),
    ("stR-TD-ops", "stR", {"time_dependent": True, "as_operators": True}),
    ("stF", "stF", {}),
    ("stF-TD", "stF", {"time_dependent": True}),
    ("cRF", "cRF", {"coupling_cutoff": "JCUT"}),
    ("cRF-sec", "cRF", {"coupling_cutoff": "JCUT", "secular_relaxation": True}),
    ("cRF-TD", "cRF", {"coupling_cutoff": "JCUT", "time_dependent": True}),
    ("neF", "neF", {}),
    ("neF-TD", "neF", {"time_dependent": True}),
]
# direct constructors in quantarhei.qm
DIRECT_CONFIGS = [
    ("direct-Redfield", {}),
    ("direct-Redfield-ops", {"as_operators": True}),
    ("direct-TDRedfield", {}),
    ("direct-Foerster", {"pure_dephasing": False}),
    ("direct-Foerster-pd", {"pure_dephasing": True}),
    ("direct-TDFoerster", {}),
    ("Lindblad-ops", {"as_operators": True}),
    ("Lindblad-tensor", {"as_operators": False}),
    ("Lindblad-open", {}),
    ("Lindblad-open-sec", {"secular_relaxation": True}),
    ("eLindblad-vib-tensor", {"as_operators": False}),
    ("eLindblad-vib-ops", {"as_operators": True}),
]
ALL_LABELS = [c[0] for c in OPEN_CONFIGS] + [c[0] for c in DIRECT_CONFIGS]


def gen_case(rng, label, tier="quick", nmax=None):
    if nmax is None:
        nmax = 4 if tier == "quick" else 5
    td = "TD" in label
    N = int(rng.integers(2, (3 if td and tier == "quick" else nmax) + 1))
    Nt = int(rng.integers(120, 260)) if td else int(rng.integers(200, 500))
    s = build.gen_system(rng, N=N, Nt=Nt, dt=float(rng.choice([1.0, 1.0, 2.0])),
                         zero_coupling=bool(rng.random() < 0.08), degenerate=bool(rng.random() < 0.12),
                         dipoles=False, lam=(5.0, 150.0), tau=(20.0, 200.0))
    if s["N"] >= 3 and rng.random() < 0.08:
        # a symmetric ring of identical molecules: exactly degenerate exciton levels whose eigenvectors really mix the sites
        j0 = r3(rng.uniform(30.0, 200.0) * rng.choice([-1.0, 1.0]))
        s["E"] = [s["E"][0]] * s["N"]
        s["J"] = [[(0.0 if a == b else float(j0)) for b in range(s["N"])] for a in range(s["N"])]
    c = {"label": label, "sys": s, "seed": int(rng.integers(1 << 30))}
    J = numpy.abs(numpy.triu(numpy.array(s["J"])))
    nz = numpy.unique(J[J > 0])
    if "cRF" in label:
        # cut-off below / between / above the couplings
        u = rng.random()
        if len(nz) == 0:
            jc = 10.0
        elif u < 0.25:
            jc = 0.5 * nz[0]
        elif u < 0.85:
            k = int(rng.integers(0, len(nz)))
            jc = 0.5 * (nz[k] + (nz[k + 1] if k + 1 < len(nz) else nz[k] * 1.5))
        else:
            jc = 1.5 * nz[-1]
        c["jcut_cm"] = r3(jc)
    if "cut" in label:
        c["cut_time"] = r3(rng.uniform(0.3, 0.8) * Nt * s["dt"])
    if label.startswith("eLindblad"):
        # vibronic aggregate with purely electronic Lindblad operators (projectors between sites)
        N = int(rng.integers(2, 4 if tier == "thorough" else 3))
        s["N"] = N
        s["E"] = s["E"][:N] if len(s["E"]) >= N else s["E"] + [s["E"][0] + 100.0] * (N - len(s["E"]))
        s["J"] = [[(float(rng.uniform(20, 200)) if a != b else 0.0) for b in range(N)] for a in range(N)]
        s["J"] = [[s["J"][min(a, b)][max(a, b)] for b in range(N)] for a in range(N)]
        s["bath"] = s["bath"][:1] * N
        c["modes"] = [{"omega": r3(rng.uniform(100, 600)), "hr": r3(rng.uniform(0.05, 1.0)), "n0": int(rng.integers(1, 3)), "n1": int(rng.integers(1, 3))} for _ in range(N)]
        pairs = [(a, b) for a in range(1, N + 1) for b in range(1, N + 1) if a != b]
        k = int(rng.integers(1, len(pairs) + 1))
        sel = [pairs[i] for i in rng.permutation(len(pairs))[:k]]
        c["eproj"] = [[int(a), int(b)] for a, b in sel]
        c["lrates"] = [0.0 if rng.random() < 0.1 else r3(1.0 / rng.uniform(30, 500)) for _ in sel]
        return c
    if label.startswith("Lindblad"):
        dim = N + 1
        nops = int(rng.integers(1, 4))
        ops = []
        for k in range(nops):
            kind = str(rng.choice(["projector", "ladder", "random", "diagonal"]))
            K = numpy.zeros((dim, dim))
            if kind == "projector":
                a, b = int(rng.integers(1, dim)), int(rng.integers(1, dim))
                K[a, b] = 1.0
            elif kind == "ladder":
                for a in range(1, dim - 1):
                    K[a, a + 1] = r3(rng.uniform(0.2, 1.0))
            elif kind == "diagonal":
                for a in range(1, dim):
                    K[a, a] = r3(rng.normal())
            else:
                K[1:, 1:] = numpy.vectorize(r3)(rng.normal(size=(dim - 1, dim - 1)))
            ops.append(K.tolist())
        rates = [0.0 if rng.random() < 0.1 else r3(1.0 / rng.uniform(30, 500)) for _ in range(nops)]
        c["lops"] = ops
        c["lrates"] = rates
    return c


def build_case(case):
    """returns dict with agg, t, ham (aggregate Hamiltonian), sbi, R (tensor), hamR (Hamiltonian returned with it / to propagate with)"""
    import quantarhei as qr
    from quantarhei import qm
    label = case["label"]
    if label.startswith("eLindblad"):
        desc = case["sys"]
        N = desc["N"]
        with qr.energy_units("1/cm"):
            mols = [qr.Molecule([0.0, float(desc["E"][i])]) for i in range(N)]
            for m, md_ in zip(mols, case["modes"]):
                md = qr.Mode(md_["omega"])
                m.add_Mode(md)
                md.set_nmax(0, md_["n0"])
                md.set_nmax(1, md_["n1"])
                md.set_HR(1, md_["hr"])
            vagg = qr.Aggregate(molecules=mols)
            J = numpy.array(desc["J"], dtype=float)
            for a in range(N):
                for b in range(a + 1, N):
                    vagg.set_resonance_coupling(a, b, float(J[a, b]))
        vagg.build()
        vham = vagg.get_Hamiltonian()
        ops = [qm.ProjectionOperator(a, b, dim=N + 1) for (a, b) in case["eproj"]]
        vsbi = qm.SystemBathInteraction(ops, rates=[float(x) for x in case["lrates"]])
        vsbi.set_system(vagg)
        kw = dict([c for c in DIRECT_CONFIGS if c[0] == label][0][1])
        with contextlib.redirect_stdout(io.StringIO()):
            R = qm.ElectronicLindbladForm(vham, vsbi, **kw)
        return {"agg": vagg, "t": build.timeaxis(desc), "cfs": [], "ham": vham, "hamR": vham, "sbi": vsbi, "R": R, "route": "direct", "kwargs": kw}
    agg, t, cfs = build.make_aggregate(case["sys"])
    ham = agg.get_Hamiltonian()
    out = {"agg": agg, "t": t, "cfs": cfs, "ham": ham}
    buf = io.StringIO()
    with contextlib.redirect_stdout(buf):
        for (lab, theory, kw) in OPEN_CONFIGS:
            if lab == label:
                kw = dict(kw)
                if kw.get("coupling_cutoff") == "JCUT":
                    kw["coupling_cutoff"] = case["jcut_cm"] * CM2INT
                if kw.get("relaxation_cutoff_time") == "CUT":
                    kw["relaxation_cutoff_time"] = case["cut_time"]
                R, hamR = agg.get_RelaxationTensor(t, relaxation_theory=theory, **kw)
                out.update(R=R, hamR=hamR, sbi=agg.get_SystemBathInteraction(), theory=theory, kwargs=kw, route="OpenSystem")
                return out
        sbi = agg.get_SystemBathInteraction()
        out["sbi"] = sbi
        out["route"] = "direct"
        out["hamR"] = ham
        kw = dict([c for c in DIRECT_CONFIGS if c[0] == label][0][1])
        out["kwargs"] = kw
        if label.startswith("direct-Redfield"):
            out["R"] = qm.RedfieldRelaxationTensor(ham, sbi, **kw)
        elif label == "direct-TDRedfield":
            out["R"] = qm.TDRedfieldRelaxationTensor(ham, sbi)
        elif label.startswith("direct-Foerster"):
            out["R"] = qm.FoersterRelaxationTensor(ham, sbi, **kw)
        elif label == "direct-TDFoerster":
            out["R"] = qm.TDFoersterRelaxationTensor(ham, sbi)
        elif label.startswith("Lindblad"):
            ops = [qm.Operator(data=numpy.array(K, dtype=float)) for K in case["lops"]]
            lsbi = qm.SystemBathInteraction(sys_operators=ops, rates=[float(x) for x in case["lrates"]])
            out["sbi"] = lsbi
            if label.startswith("Lindblad-open"):
                lsbi.set_system(agg)
                agg.set_SystemBathInteraction(lsbi)
                R, hamR = agg.get_RelaxationTensor(t, relaxation_theory="Lindblad_form", **kw)
                out.update(R=R, hamR=hamR, route="OpenSystem")
            else:
                out["R"] = qm.LindbladForm(ham, lsbi, **kw)
        else:
            raise ValueError(label)
    return out


def tensor_by_apply(R, dim):
    """4-index array of a (time-independent) tensor in the CURRENT basis,
    obtained only through its public apply() on the matrix units"""
    import quantarhei as qr
    T = numpy.zeros((dim, dim, dim, dim), dtype=complex)
    buf = io.StringIO()
    with contextlib.redirect_stdout(buf):
        for c in range(dim):
            for d in range(dim):
                E = numpy.zeros((dim, dim), dtype=complex)
                E[c, d] = 1.0
                op = qr.qm.Operator(data=E)
                T[:, :, c, d] = numpy.array(R.apply(op).data)
    return T


def random_sao(rng, dim):
    """random real symmetric matrix acting in the excited block only (band structure kept)"""
    A = numpy.zeros((dim, dim))
    B = rng.normal(size=(dim - 1, dim - 1))
    A[1:, 1:] = (B + B.T) / 2
    A[0, 0] = -10.0
    return A
