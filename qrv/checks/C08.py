"""C08  Evolution superoperator is an identity-started semigroup matching propagation.

Real EvolutionSuperOperator objects over random time-independent generators:
U(0)=1, U(t_i)U(t_j)=U(t_i+t_j) on the grid, trace / Hermiticity preservation of
the map, U(t) rho against direct propagation with the same dense step,
step-by-step ("jit") against all-at-once histories, refinement of the dense
step within the truncation bound (scipy expm oracle).
"""
import io
import math
import contextlib
import numpy
from qrv import build, tensors
from qrv.build import r3
from qrv.oracles import gksl

LEVEL = "exploration"
RULE = ("random Hamiltonians of dimension 2-5 (degenerate levels, with/without RWA blocks, every sixth Lindblad case complex Hermitian) with Lindblad forms (operator/tensor form) or Redfield tensors from C01's "
        "generator, with/without Lorentzian pure dephasing; grids of 4-30 points, dense steps 1-20, modes 'all' and 'jit' (save on/off, 1..Nt-1 incremental steps), "
        "apply() with scalar times, 'all', the object's own axis, lists, tuples, arrays and other TimeAxis objects. distinct = (generator class, dim, grid, dense step, "
        "mode history, rounded generator); non-trivial iff U(t_last) differs from the identity by more than 1e-3 and the generator is dissipative or non-diagonal.")
RULE = RULE + " Round-6 workloads: states stored as real and as integer arrays are applied at single times (both copy flags) and at all times."
ASSUMPTIONS = ["the semigroup law is checked in the frame the object reports through is_in_rwa",
               "refinement clause: ||U_n - U_2n|| <= bound(n) + bound(2n) with the a-priori Taylor bound of the order-4 expansion on the dense step"]
MIN_NONTRIVIAL = {"quick": 40, "thorough": 300}
REQUIRED_CLAUSES = ["U(0)==1", "semigroup", "trace-preserving", "hermiticity-preserving", "apply==propagate", "jit==all", "refinement-within-bound", "U==expm"]
TIMEOUT = {"quick": 900, "thorough": 3400}
EPS = numpy.finfo(float).eps


def gen_cases(tier, rng):
    cases = []
    n = 66 if tier == "quick" else 400
    for i in range(n):
        kind = ["lindblad", "lindblad", "redfield"][i % 3]
        c = {"cls": kind, "seed": int(rng.integers(1 << 30)), "Nt": int(rng.integers(4, 31)), "dense": int(rng.choice([1, 2, 3, 5, 10, 20])),
             "x": r3(10 ** rng.uniform(math.log10(0.03), math.log10(0.4))), "pdeph": bool(rng.random() < 0.25),
             "jit_steps": None, "save": bool(rng.random() < 0.5)}
        c["jit_steps"] = int(rng.integers(1, c["Nt"]))
        if kind == "lindblad":
            dim = int(rng.integers(2, 6))
            c["dim"] = dim
            c["rwa"] = bool(rng.random() < 0.4)
            c["as_operators"] = bool(rng.random() < 0.5)
            c["degenerate"] = bool(rng.random() < 0.2)
            c["nops"] = int(rng.integers(1, 4))
            # a Hermitian Hamiltonian with complex couplings (e.g. in a magnetic field): its eigenbasis is reached by a unitary matrix
            c["complex_h"] = bool(i % 6 == 4)
            if c["complex_h"]:
                c["rwa"] = False
                c["as_operators"] = False
                c["dim"] = max(dim, 3)
        else:
            t = tensors.gen_case(rng, str(rng.choice(["stR", "stR-ops", "stR-sec", "stF", "cRF"])), tier, nmax=3)
            c["tensor"] = t
        c["cost"] = 3 + c["Nt"] / 10.0
        cases.append(c)
    return cases


def unit_superop(dim):
    I = numpy.zeros((dim,) * 4, dtype=complex)
    for i in range(dim):
        for j in range(dim):
            I[i, j, i, j] = 1.0
    return I


def run_case(case, ctx):
    import quantarhei as qr
    from quantarhei import qm
    rng = numpy.random.default_rng(case["seed"])
    out = io.StringIO()
    G = None
    with ctx.lib("generator construction", mechanism=None):
        with contextlib.redirect_stdout(out):
            if case["cls"] == "lindblad":
                dim = case["dim"]
                A = rng.normal(size=(dim, dim))
                Hd = (A + A.T) / 2
                if case.get("complex_h"):
                    B_ = rng.normal(size=(dim, dim))
                    Hd = Hd + 1j * (B_ - B_.T) / 2
                if case["degenerate"] and dim >= 3:
                    Hd[2, 2] = Hd[1, 1]
                split = int(rng.integers(1, dim))
                if case["rwa"]:
                    Hd[:split, split:] = 0.0
                    Hd[split:, :split] = 0.0
                Ks, rates = [], []
                for k in range(case["nops"]):
                    K = rng.normal(size=(dim, dim)) * (rng.random((dim, dim)) < 0.6)
                    Ks.append(K)
                    rates.append(float(rng.uniform(0.05, 0.6)))
                Lraw = gksl.hamiltonian_part(Hd) + gksl.lindblad_part(Ks, rates)
                scale = 1.0 / float(numpy.linalg.norm(Lraw, 2))       # generator of unit norm, time step sets x
                Hd = Hd * scale
                rates = [r * scale for r in rates]
                if case["rwa"]:
                    Hd = Hd + numpy.diag([0.0 if i < split else 30.0 for i in range(dim)])
                ham = qr.Hamiltonian(data=Hd.copy())
                if case["rwa"]:
                    ham.set_rwa([0, split])
                sbi = qm.SystemBathInteraction(sys_operators=[qm.Operator(data=K.copy()) for K in Ks], rates=rates)
                R = qm.LindbladForm(ham, sbi, as_operators=case["as_operators"])
                Heff = Hd.copy()
                if case["rwa"]:
                    e = numpy.diag(Hd).real
                    blk = numpy.zeros(dim)
                    blk[:split] = numpy.mean(e[:split])
                    blk[split:] = numpy.mean(e[split:])
                    Heff = Hd - numpy.diag(blk)
                L = gksl.hamiltonian_part(Heff) + gksl.lindblad_part(Ks, rates)
            else:
                Bd = tensors.build_case(case["tensor"])
                R, ham = Bd["R"], Bd["hamR"]
                dim = ham.dim
                Tn = tensors.tensor_by_apply(R, dim) if getattr(R, "as_operators", False) else numpy.array(R.data)
                Heff = numpy.array(ham.data, dtype=float)
                if ham.has_rwa:
                    Heff = Heff - numpy.diag(numpy.array(ham.rwa_energies, dtype=float))
                L = gksl.hamiltonian_part(Heff) + gksl.tensor_part(Tn)
            pd = None
            if case["pdeph"]:
                A = rng.uniform(0.0, 0.3, size=(dim, dim)) * float(numpy.linalg.norm(L, 2))
                # rate matrices as users write them (the class's own documentation gives a non-symmetric one): with G_ab != G_ba the
                # generator no longer commutes with Hermitian conjugation, but superoperator and propagator still describe the same map
                asym = bool(case["seed"] % 2)
                G = A.copy() if asym else (A + A.T) / 2
                numpy.fill_diagonal(G, 0.0)
                pd = qm.PureDephasing(drates=G.copy(), dtype="Lorentzian")
    nL = float(numpy.linalg.norm(L, 2))
    if nL == 0.0:
        nL = 1.0            # a generator that vanishes in the rotating frame (masked operators, 1x1 blocks): the identity map, any step will do
    dense = case["dense"]
    Nt = case["Nt"]
    dt = float("%.5g" % (case["x"] * dense / nL))
    t = qr.TimeAxis(0.0, Nt, dt)
    det = {"class": case["cls"], "dim": dim, "Nt": Nt, "dense": dense, "x": case["x"], "pdeph": case["pdeph"], "complex_h": bool(case.get("complex_h"))}

    def make(mode="all", dn=dense):
        eU = qr.EvolutionSuperOperator(time=t, ham=ham, relt=R, pdeph=pd, mode=mode)
        eU.set_dense_dt(dn)
        return eU

    with ctx.lib("EvolutionSuperOperator.calculate", mechanism=None):
        with contextlib.redirect_stdout(out):
            eU = make()
            eU.calculate(show_progress=False)
            U = numpy.array(eU.data)
    ctx.require("shape", U.shape == (Nt, dim, dim, dim, dim), dict(det, shape=list(U.shape)))
    I = unit_superop(dim)
    ctx.check("U(0)==1", float(numpy.max(numpy.abs(U[0] - I))), 0.0, det)
    Mn = max(float(numpy.max(numpy.abs(U))), 1.0)
    # semigroup on the grid
    worst = 0.0
    wij = None
    for i in range(Nt):
        for j in range(Nt - i):
            r = float(numpy.max(numpy.abs(numpy.tensordot(U[i], U[j]) - U[i + j]))) / (64 * EPS * (i + j + 1) * dim * dim * Mn * Mn)
            if r > worst:
                worst, wij = r, (i, j)
    ctx.check("semigroup", worst, 1.0, dict(det, worst_pair=wij))
    tr = numpy.einsum("taacd->tcd", U) - numpy.eye(dim)[None]
    rnd = 512 * EPS * Nt * dense * dim * Mn
    ctx.check("trace-preserving", float(numpy.max(numpy.abs(tr))), rnd, det)
    he = numpy.conj(U) - numpy.transpose(U, (0, 2, 1, 4, 3))
    if not (case["pdeph"] and asym):
        ctx.check("hermiticity-preserving", float(numpy.max(numpy.abs(he))), rnd, det)
    else:
        det = dict(det, dephasing_rates="non-symmetric")

    # exact exponential (no pure dephasing: the splitting error of the dephasing factor is not a Taylor error)
    bounds, x, M = gksl.taylor_bounds(L, dt / dense, 4, dense, Nt, 1.0)
    if not case["pdeph"]:
        import scipy.linalg as sl
        E1 = sl.expm(L * dt)
        P = numpy.eye(dim * dim, dtype=complex)
        worst, wi = 0.0, 0
        for i in range(Nt):
            r = float(numpy.linalg.norm(U[i].reshape(dim * dim, dim * dim) - P, 2)) / (bounds[i] * 4 * dim + 1e-12)
            if r > worst:
                worst, wi = r, i
            P = E1 @ P
        ctx.check("U==expm", worst, 1.0, dict(det, index=wi, x_dense=x))

    # apply vs direct propagation with the same dense step
    rho0 = build.random_state(rng, dim)
    with ctx.lib("apply / propagate", mechanism=None):
        with contextlib.redirect_stdout(out):
            prop = qm.ReducedDensityMatrixPropagator(t, ham, R, PDeph=pd)
            prop.setDtRefinement(dense)
            ev = numpy.array(prop.propagate(qr.ReducedDensityMatrix(data=rho0.copy())).data)
            r_in = qr.ReducedDensityMatrix(data=rho0.copy())
            got_scalar = numpy.array([numpy.array(eU.apply(float(tt), r_in).data) for tt in t.data])
            got_all = numpy.array(eU.apply("all", r_in).data)
            got_axis = numpy.array(eU.apply(t, r_in).data)
            sub = [float(t.data[k]) for k in range(0, Nt, 2)]
            got_list = numpy.array(eU.apply(sub, r_in).data) if len(sub) >= 2 else None
            got_tuple = numpy.array(eU.apply(tuple(sub), r_in).data) if len(sub) >= 2 else None
            t2 = qr.TimeAxis(float(t.data[1]), max(2, (Nt - 1) // 2), 2 * dt) if Nt >= 5 else None
            got_t2 = numpy.array(eU.apply(t2, r_in).data) if t2 is not None else None
            at1 = numpy.array(eU.at(float(t.data[Nt - 1])).data)
            # states whose matrix the caller stored as a real (float) or integer array: populations, real symmetric states
            rr = numpy.real(rho0).astype(float).copy()
            ev_rr = numpy.array(prop.propagate(qr.ReducedDensityMatrix(data=rr.astype(complex))).data)
            tk_ = int(rng.integers(1, Nt))
            got_rr = numpy.array(eU.apply(float(t.data[tk_]), qr.ReducedDensityMatrix(data=rr.copy())).data)
            tgt_ = qr.ReducedDensityMatrix(data=rr.copy())
            ret_ = eU.apply(float(t.data[tk_]), tgt_, copy=False)
            got_rr_inplace = numpy.array((ret_ if ret_ is not None else tgt_).data)
            ri = numpy.zeros((dim, dim), dtype=int)
            ri[dim - 1, dim - 1] = 1
            ev_ri = numpy.array(prop.propagate(qr.ReducedDensityMatrix(data=ri.astype(complex))).data)
            got_ri = numpy.array(eU.apply(float(t.data[tk_]), qr.ReducedDensityMatrix(data=ri.copy())).data)
            got_ri_all = numpy.array(eU.apply("all", qr.ReducedDensityMatrix(data=ri.copy())).data)
    tol = 512 * EPS * Nt * dense * dim * dim * Mn
    ctx.check("apply==propagate", float(numpy.max(numpy.abs(got_rr - ev_rr[tk_]))), tol, dict(det, how="scalar time, state stored as a real array", index=tk_))
    ctx.check("apply==propagate", float(numpy.max(numpy.abs(got_rr_inplace - ev_rr[tk_]))), tol, dict(det, how="scalar time, copy=False, state stored as a real array", index=tk_))
    ctx.check("apply==propagate", float(numpy.max(numpy.abs(got_ri - ev_ri[tk_]))), tol, dict(det, how="scalar time, state stored as an integer array", index=tk_))
    ctx.check("apply==propagate", float(numpy.max(numpy.abs(got_ri_all - ev_ri))), tol, dict(det, how="'all', state stored as an integer array"))
    ctx.check("apply==propagate", float(numpy.max(numpy.abs(got_scalar - ev))), tol, dict(det, how="scalar times"))
    ctx.check("apply==propagate", float(numpy.max(numpy.abs(got_all - ev))), tol, dict(det, how="'all'"))
    ctx.check("apply==propagate", float(numpy.max(numpy.abs(got_axis - ev))), tol, dict(det, how="own TimeAxis"))
    if got_list is not None:
        ctx.check("apply==propagate", float(numpy.max(numpy.abs(got_list - ev[0:Nt:2]))), tol, dict(det, how="list of times"))
        ctx.check("apply==propagate", float(numpy.max(numpy.abs(got_tuple - ev[0:Nt:2]))), tol, dict(det, how="tuple of times"))
    if got_t2 is not None:
        idx = [1 + 2 * k for k in range(t2.length)]
        ctx.check("apply==propagate", float(numpy.max(numpy.abs(got_t2 - ev[idx]))), tol, dict(det, how="other TimeAxis"))
    ctx.check("apply==propagate", float(numpy.max(numpy.abs(at1 - U[Nt - 1]))), 0.0, dict(det, how="at(t_last)"))
    ctx.check("apply==propagate", float(numpy.max(numpy.abs(numpy.array(r_in.data) - rho0))), 0.0, dict(det, how="target unchanged by apply(copy=True)"))

    # the same inside a basis context that the superoperator has not been looked at in: the results, transformed back, are the same states
    from quantarhei import Manager
    how_in = ["'all'", "own TimeAxis", "list of times", "scalar times", "at(t)"][int(rng.integers(5))]
    with ctx.lib("apply inside eigenbasis_of(H)", mechanism=None):
        with contextlib.redirect_stdout(out):
            r_in2 = qr.ReducedDensityMatrix(data=rho0.copy())
            hctx = qr.Hamiltonian(data=numpy.array(ham._data).copy())
            with qr.eigenbasis_of(hctx):
                S = numpy.array(Manager().basis_transformations[-1])
                if how_in == "'all'":
                    gi, ref_in = numpy.array(eU.apply("all", r_in2).data), ev
                elif how_in == "own TimeAxis":
                    gi, ref_in = numpy.array(eU.apply(t, r_in2).data), ev
                elif how_in == "list of times":
                    gi, ref_in = numpy.array(eU.apply([float(x) for x in t.data], r_in2).data), ev
                elif how_in == "scalar times":
                    gi, ref_in = numpy.array([numpy.array(eU.apply(float(tt), r_in2).data) for tt in t.data]), ev
                else:
                    k_at = int(rng.integers(Nt))
                    ua = numpy.array(eU.at(float(t.data[k_at])).data)
                    gi = numpy.einsum("ia,jb,abcd,kc,ld->ijkl", S, S.conj(), ua, S.conj(), S)[None]
                    ref_in = None
    if ref_in is not None:
        back = numpy.einsum("ia,tab,jb->tij", S, gi, S.conj())
        ctx.check("apply==propagate", float(numpy.max(numpy.abs(back - ref_in))), tol * 4, dict(det, how=how_in, where="inside eigenbasis_of(H), superoperator not read there before"))
    else:
        ctx.check("apply==propagate", float(numpy.max(numpy.abs(gi[0] - U[k_at]))), 64 * EPS * dim * dim * Mn, dict(det, how="at(t) inside eigenbasis_of(H), transformed back", index=k_at))
    with ctx.lib("reading the superoperator after the context", mechanism=None):
        ctx.check("apply==propagate", float(numpy.max(numpy.abs(numpy.array(eU.data) - U))), 64 * EPS * dim * dim * Mn, dict(det, how="data after leaving the context"))

    # the same object calculated again: unchanged, and inside the eigenbasis context of the Hamiltonian (read after the context is left)
    with ctx.lib("calculate() again on the same object", mechanism=None):
        with contextlib.redirect_stdout(out):
            eU.calculate(show_progress=False)
            U_again = numpy.array(eU.data)
            U_ctx = None
            if not case["pdeph"]:
                # (pure dephasing is documented as intentionally not basis managed: it belongs to the basis it was defined in)
                hctx2 = qr.Hamiltonian(data=numpy.array(ham._data).copy())
                with qr.eigenbasis_of(hctx2):
                    eU.calculate(show_progress=False)
                U_ctx = numpy.array(eU.data)
    ctx.check("apply==propagate", float(numpy.max(numpy.abs(U_again - U))), 0.0, dict(det, how="second calculate() on the same object"))
    if U_ctx is not None:
        ctx.check("apply==propagate", float(numpy.max(numpy.abs(U_ctx - U))), 4096 * EPS * Nt * dense * dim * dim * Mn * Mn,
                  dict(det, how="calculate() repeated inside eigenbasis_of(H), read after the context is left"))

    # jit history vs all-at-once
    with ctx.lib("calculate_next history", mechanism=None):
        with contextlib.redirect_stdout(out):
            eJ = make(mode="jit")
            worst, wk = 0.0, 0
            for k in range(1, case["jit_steps"] + 1):
                eJ.calculate_next(save=case["save"])
                cur = numpy.array(eJ.data)
                cur_k = cur[k] if cur.ndim == 5 else cur
                r = float(numpy.max(numpy.abs(cur_k - U[k])))
                if r > worst:
                    worst, wk = r, k
    ctx.check("jit==all", worst, 64 * EPS * Nt * dim * dim * Mn * Mn, dict(det, step=wk, save=case["save"], steps=case["jit_steps"]))

    # refinement n -> 2n
    if not case["pdeph"]:
        with ctx.lib("refined calculate", mechanism=None):
            with contextlib.redirect_stdout(out):
                e2 = make(dn=2 * dense)
                e2.calculate(show_progress=False)
                U2 = numpy.array(e2.data)
        b2, x2, M2 = gksl.taylor_bounds(L, dt / (2 * dense), 4, 2 * dense, Nt, 1.0)
        worst, wi = 0.0, 0
        for i in range(Nt):
            r = float(numpy.linalg.norm((U[i] - U2[i]).reshape(dim * dim, dim * dim), 2)) / ((bounds[i] + b2[i]) * 4 * dim + 1e-12)
            if r > worst:
                worst, wi = r, i
        ctx.check("refinement-within-bound", worst, 1.0, dict(det, index=wi))
    dissip = float(numpy.max(numpy.abs(L.real))) > 0
    ctx.key((case["cls"], dim, Nt, dense, case["pdeph"], case["jit_steps"], case["save"], case["seed"]))
    ctx.nontrivial(float(numpy.max(numpy.abs(U[-1] - I))) > 1e-3 and dissip)
