"""C05  Energy-units management is transparent and contexts restore units.

Monitors
  * every inventoried units-managed setter/getter pair over ALL ordered pairs of
    supported energy units (values supplied under u1, read under u2) against
    conversion factors recomputed from scipy.constants;
  * random programs of nested units contexts with exceptions, against a shadow
    stack;
  * the sys.monitoring leak detector over every library frame executed while
    public builder/calculator entry points run inside units contexts: a frame
    that returns (or unwinds) with other active units than it was entered with
    is a violation, attributed to the innermost such function.
"""
import contextlib
import io
import os
import numpy
from qrv import build
from qrv.build import r3
from qrv.oracles import units as U

LEVEL = "exploration"
RULE = ("(a) exhaustive: all 11x11 ordered pairs of energy units x 16 accessor pairs x values {positive scalar, array; zero/negative except for nm}, "
        "all 7x7 length-unit pairs; (b) random nested context programs (depth 1-5, energy/frequency/length contexts, exception at a random depth, "
        "optionally caught in the middle); (c) ~40 public builder/calculator entry points called inside each of several unit contexts at depth 1 and 2 "
        "under the frame-level leak detector; (d) energy-valued call arguments: the same physical coupling cut-off handed to Hamiltonian.remove_cutoff_coupling / "
        "subtract_cutoff_coupling / diagonalize(coupling_cutoff=) / get_RelaxationTensor('cRF', coupling_cutoff=) under each unit must leave the same stored "
        "Hamiltonian, remainder coupling and tensor; (d') Hamiltonian builders of molecules with 1-2 modes called (first, recalculating, through an aggregate) inside 7 unit contexts vs outside; (e) the repository's own unit tests (qrv/stable_tests.json) run in-process as a workload for the leak "
        "detector: every library frame they reach must return with the units it was entered with (a failing test is not a verdict). distinct = (accessor, u1, u2) / (program shape) / (entry point, context); non-trivial iff u1 != u2, "
        "program depth >= 2, or the entry point was entered under a non-internal unit.")
RULE = RULE + " Round-6 workloads: entry points include copy, sums, in-place sums and transforms of every bath-function type (Overdamped, high-temperature, Underdamped) x {CorrelationFunction, SpectralDensity}."
RULE = RULE + " Round-7 workloads: accessor pairs include Molecule.set_diabatic_coupling/get_diabatic_coupling (read under two units in a row on the same object)."
ASSUMPTIONS = ["Manager.convert_frequency_* has no context that activates it and no managed accessor: not claimed",
               "results that depend on the active units (e.g. thermal states requested inside a 1/cm context) are outside the statement; "
               "only accessor round trips and the units active after a call are judged",
               "tolerance 1e-7 relative absorbs the CODATA-2014 constants hard-wired in core/units.py"]
MIN_NONTRIVIAL = {"quick": 1500, "thorough": 3000}
REQUIRED_CLAUSES = ["accessor-conversion", "context-restores-units", "library-call-keeps-units", "length-conversion"]
TIMEOUT = {"quick": 900, "thorough": 3400}
EUNITS = ["1/fs", "int", "1/cm", "eV", "meV", "THz", "J", "SI", "nm", "Ha", "a.u."]
LUNITS = ["int", "A", "nm", "Bohr", "a.u.", "m", "SI"]
RTOL = 1e-7


def gen_cases(tier, rng):
    cases = []
    for u1 in EUNITS:
        cases.append({"cls": "accessor-pairs", "u1": u1, "x": r3(rng.uniform(0.3, 3.0)), "cost": 3})
    cases.append({"cls": "length-pairs", "cost": 1})
    from qrv import repotests
    cases.extend(repotests.gen_cases(tier))
    for i in range(2 if tier == "quick" else 12):
        cases.append({"cls": "rwa-in-context", "seed": int(rng.integers(1 << 30)), "cost": 3})
    for i in range(10 if tier == "quick" else 80):
        nmodes = 1 + i % 2
        cases.append({"cls": "builder-in-context", "seed": int(rng.integers(1 << 30)), "nmodes": nmodes, "E": r3(rng.uniform(9000, 18000)),
                      "omega": [r3(rng.uniform(80, 1500)) for _ in range(nmodes)], "hr": [r3(rng.uniform(0.01, 1.5)) for _ in range(nmodes)],
                      "nmax": [int(rng.integers(2, 5)) for _ in range(nmodes)], "cost": 2})
    for cut in (50.0, 100.0, 10.0) + tuple(r3(rng.uniform(5.0, 220.0)) for _ in range(3 if tier == "quick" else 40)):
        cases.append({"cls": "cutoff-arguments", "cut_cm": cut, "seed": int(rng.integers(1 << 30)), "cost": 6})
    npg = 150 if tier == "quick" else 1500
    for i in range(npg):
        depth = int(rng.integers(1, 6))
        prog = []
        for d in range(depth):
            kind = str(rng.choice(["energy", "energy", "energy", "frequency", "length"]))
            unit = str(rng.choice(EUNITS if kind != "length" else LUNITS))
            prog.append([kind, unit])
        raise_at = int(rng.integers(0, depth + 1)) if rng.random() < 0.6 else -1
        catch_at = int(rng.integers(0, max(1, raise_at))) if (raise_at > 0 and rng.random() < 0.5) else -1
        cases.append({"cls": "context-program", "prog": prog, "raise_at": raise_at, "catch_at": catch_at, "create": ["inline", "top", "foreign"][len(cases) % 3], "cost": 0.2})
    ctxs = [["1/cm"], ["eV"], ["THz"], ["nm"], ["1/cm", "eV"], ["meV", "1/cm"], ["Ha"], []]
    if tier == "thorough":
        ctxs += [["J"], ["a.u.", "nm"], ["1/cm", "1/cm"], ["eV", "int"]]
    for k, c in enumerate(ctxs):
        for part in range(4):
            s = build.gen_system(rng, N=int(rng.integers(2, 4)), Nt=200, dt=1.0)
            cases.append({"cls": "library-calls", "ctx": c, "part": part, "sys": s, "seed": int(rng.integers(1 << 30)), "cost": 12})
    return cases


# ----------------------------------------------------------------------
def accessors(qr):
    """name -> (supply(x) run under u1 returning an object, read(obj) run under u2)"""
    import quantarhei as q
    from quantarhei import Manager
    m = Manager()
    t = q.TimeAxis(0.0, 64, 1.0)
    A = {}
    A["Molecule(ctor).get_energy"] = (lambda x: q.Molecule([0.0, x]), lambda o: o.get_energy(1))

    def mol_set(x):
        mo = q.Molecule([0.0, x * 1.5])
        mo.set_energy(1, x)
        return mo
    A["Molecule.set_energy/get_energy"] = (mol_set, lambda o: o.get_energy(1))
    A["Hamiltonian(data).data"] = (lambda x: q.Hamiltonian(data=[[0.0, 0.0], [0.0, x]]), lambda o: o.data[1, 1])
    A["qr.convert"] = None          # special
    A["FrequencyAxis.start"] = (lambda x: q.FrequencyAxis(x, 4, x / 10.0), lambda o: o.start)
    A["FrequencyAxis.step"] = (lambda x: q.FrequencyAxis(x, 4, x), lambda o: o.step)
    A["FrequencyAxis.data"] = (lambda x: q.FrequencyAxis(x, 4, x / 10.0), lambda o: o.data[0])
    # an axis mapped to the time domain and back while the supplying context is active is the same axis
    A["FrequencyAxis.get_TimeAxis().get_FrequencyAxis().data"] = (lambda x: q.FrequencyAxis(x, 5, abs(x) / 10.0 + 1e-3).get_TimeAxis().get_FrequencyAxis(), lambda o: o.data[0])

    def agg_set(x):
        a = q.Aggregate([q.Molecule([0, 1.0]), q.Molecule([0, 1.0])])
        a.set_resonance_coupling(0, 1, x)
        return a
    A["Aggregate.set/get_resonance_coupling"] = (agg_set, lambda o: o.get_resonance_coupling(0, 1))

    def agg_setm(x):
        a = q.Aggregate([q.Molecule([0, 1.0]), q.Molecule([0, 1.0])])
        a.set_resonance_coupling_matrix(numpy.array([[0.0, x], [x, 0.0]]))
        return a
    A["Aggregate.set_resonance_coupling_matrix/get"] = (agg_setm, lambda o: o.get_resonance_coupling(1, 0))

    def mode_ctor(x):
        mo = q.Molecule([0.0, x * 50])
        md = q.Mode(x)
        mo.add_Mode(md)
        return md
    A["Mode(ctor).get_energy"] = (mode_ctor, lambda o: o.get_energy(0, no_conversion=False))

    def mode_set(x):
        mo = q.Molecule([0.0, x * 50])
        md = q.Mode(x * 2)
        mo.add_Mode(md)
        md.set_energy(1, x)
        return md
    A["Mode.set_energy/get_energy"] = (mode_set, lambda o: o.get_energy(1, no_conversion=False))
    def mol_diab(x):
        mo = q.Molecule([0.0, 1.0, 1.2])
        md = q.Mode(0.01)
        mo.add_Mode(md)
        mo.set_diabatic_coupling((1, 2), [x, [1]])
        return mo
    A["Molecule.set_diabatic_coupling/get_diabatic_coupling"] = (mol_diab, lambda o: o.get_diabatic_coupling((1, 2))[0][0])

    A["CorrelationFunction(reorg).get_reorganization_energy"] = (
        lambda x: q.CorrelationFunction(t, dict(ftype="OverdampedBrownian", reorg=x, cortime=50.0, T=300.0)),
        lambda o: o.get_reorganization_energy())
    A["SpectralDensity(reorg).get_reorganization_energy"] = (
        lambda x: q.SpectralDensity(t, dict(ftype="OverdampedBrownian", reorg=x, cortime=50.0, T=300.0)),
        lambda o: o.get_reorganization_energy())
    A["Manager.convert_energy_2_internal_u/2_current_u"] = (lambda x: m.convert_energy_2_internal_u(x), lambda e: m.convert_energy_2_current_u(e))
    A["in_current_units"] = None    # special

    # Molecule.set_transition_width converts its argument but get_transition_width is a raw
    # internal-units getter (used as such by the spectroscopy builders): not a units-managed
    # accessor pair, not in the inventory.
    return A


def run_case(case, ctx):
    import quantarhei as qr
    from quantarhei import Manager
    m = Manager()
    cls = case["cls"]

    if cls == "accessor-pairs":
        u1 = case["u1"]
        A = accessors(qr)
        x0 = case["x"]
        for u2 in EUNITS:
            values = [x0]
            if u1 != "nm" and u2 != "nm":
                values += [0.0, -x0]
            for x in values:
                want = U.e_convert(x, u1, u2)
                tol = RTOL * abs(want) + 1e-300
                for name, pair in A.items():
                    det = {"accessor": name, "u1": u1, "u2": u2, "x": x, "want": want}
                    if name.startswith("Mode") and x <= 0:
                        continue
                    if ("reorg" in name or "width" in name or name == "FrequencyAxis.step") and x <= 0:
                        continue
                    if name.startswith("FrequencyAxis.get_TimeAxis") and (u1 == "nm" or u2 == "nm" or x == 0.0):
                        continue
                    if name == "FrequencyAxis.step" and (u1 == "nm" or u2 == "nm"):
                        # wavelength is not linear in frequency: an axis *step* has no nm value
                        continue
                    try:
                        if name == "qr.convert":
                            got = qr.convert(x, u1, to=u2)
                        elif name == "in_current_units":
                            from quantarhei.core.units import in_current_units
                            with qr.energy_units(u2):
                                got = in_current_units(x, u1)
                        else:
                            supply, read = pair
                            with qr.energy_units(u1):
                                obj = supply(x)
                            with qr.energy_units(u2):
                                got = read(obj)
                            # stored value does not depend on the supplying context
                            with qr.energy_units("int"):
                                gint = read(obj)
                            ctx.check("stored-value-context-independent", abs(float(gint) - U.e_to_int(x, u1)),
                                      RTOL * abs(U.e_to_int(x, u1)) + 1e-300, dict(det, internal=float(gint)))
                        ctx.check("accessor-conversion", abs(float(got) - want), tol, dict(det, got=float(got)))
                    except Exception as e:
                        ctx.require("accessor-conversion", False, dict(det, exc=repr(e)[:200]))
                    ctx.sub((name, u1, u2, "pos" if x > 0 else ("zero" if x == 0 else "neg")), nontrivial=(u1 != u2))
            # array values
            arr = numpy.array([x0, 2 * x0, 0.5 * x0])
            with qr.energy_units(u1):
                e = m.convert_energy_2_internal_u(arr.copy())
            with qr.energy_units(u2):
                back = m.convert_energy_2_current_u(e)
            wa = numpy.array([U.e_convert(v, u1, u2) for v in arr])
            ctx.check("accessor-conversion", float(numpy.max(numpy.abs(back - wa) / numpy.abs(wa))), RTOL, {"accessor": "Manager array conversion", "u1": u1, "u2": u2})
            ctx.check("context-restores-units", 0.0 if m.get_current_units("energy") in ("1/fs", "int") else 1.0, 0.0,
                      {"after": "accessor round trips", "units": m.get_current_units("energy")})
        ctx.key(("accessors", u1))
        ctx.nontrivial(True)
        return

    if cls == "repo-tests":
        from qrv import repotests
        repotests.run_module(case, ctx, ("current_units", "_in_eu_count", "_in_energy_units_context"), "library-call-keeps-units", "frame-leaks-units:")
        return

    if cls == "builder-in-context":
        # Hamiltonian builders work from parameters that are stored in internal units: the operator they store does not depend on the
        # units active when the builder is called (first call, cached call, recalculation), and what is read under a unit is its conversion
        def mk():
            with qr.energy_units("1/cm"):
                mo = qr.Molecule([0.0, case["E"]])
                for k in range(case["nmodes"]):
                    md = qr.Mode(case["omega"][k])
                    mo.add_Mode(md)
                    md.set_nmax(0, case["nmax"][k])
                    md.set_nmax(1, case["nmax"][k])
                    md.set_HR(1, case["hr"][k])
            return mo
        with ctx.lib("Molecule.get_Hamiltonian (no context)"):
            ref = numpy.array(mk().get_Hamiltonian().data, dtype=float)
            a0 = qr.Aggregate([mk()])
            a0.build()
            refA = numpy.array(a0.get_Hamiltonian().data, dtype=float)
        sc = float(numpy.max(numpy.abs(ref)))
        det0 = {"nmodes": case["nmodes"], "nmax": case["nmax"], "dim": int(ref.shape[0])}
        ctx.check("stored-value-context-independent", abs(float(numpy.linalg.eigvalsh(ref)[0])), 1e-9 * sc, dict(det0, what="lowest level of a molecule with modes is the zero of energy"))
        for u in ["1/cm", "eV", "THz", "meV", "int", "Ha", "J"]:
            for how in ("first", "recalculate", "aggregate"):
                det = dict(det0, unit=u, call=how)
                with ctx.lib("Hamiltonian builder under " + u):
                    mo = mk()
                    if how == "recalculate":
                        mo.get_Hamiltonian()
                    with qr.energy_units(u):
                        if how == "aggregate":
                            ag = qr.Aggregate([mo])
                            ag.build()
                            Hm = ag.get_Hamiltonian()
                        elif how == "recalculate":
                            Hm = mo.get_Hamiltonian(recalculate=True)
                        else:
                            Hm = mo.get_Hamiltonian()
                        inside = numpy.array(Hm.data, dtype=float)
                        if how != "aggregate":
                            again = numpy.array(mo.get_Hamiltonian().data, dtype=float)
                    stored = numpy.array(Hm.data, dtype=float)
                want = refA if how == "aggregate" else ref
                ctx.check("stored-value-context-independent", float(numpy.max(numpy.abs(stored - want))), RTOL * sc, dict(det, what="operator stored by a builder called inside a units context"))
                conv = numpy.vectorize(lambda v: U.e_from_int(v, u))(want)
                ctx.check("accessor-conversion", float(numpy.max(numpy.abs(inside - conv))), RTOL * float(numpy.max(numpy.abs(conv))), dict(det, what="operator read inside the context of the builder call"))
                if how != "aggregate":
                    ctx.check("accessor-conversion", float(numpy.max(numpy.abs(again - conv))), RTOL * float(numpy.max(numpy.abs(conv))), dict(det, what="second request inside the context"))
                ctx.sub(("builder", u, how, case["nmodes"]), nontrivial=(u != "int"))
        ctx.check("context-restores-units", 0.0 if m.get_current_units("energy") in ("1/fs", "int") else 1.0, 0.0, {"after": "builder calls"})
        ctx.key(("builder-in-context", case["seed"]))
        ctx.nontrivial(True)
        return

    if cls == "rwa-in-context":
        # the rotating-wave bookkeeping of a Hamiltonian is derived from units-managed data: whatever units are active when it is
        # set, the stored block energies are the same, and what is read back under a unit is the conversion of that
        from qrv.oracles.units import E_FAC
        cm = E_FAC["1/cm"]
        rng = numpy.random.default_rng(case["seed"])
        dim = 6
        e = numpy.sort(numpy.concatenate([[0.0, 30.0], 12000.0 + rng.uniform(0, 400, size=2), 24100.0 + rng.uniform(0, 500, size=2)])) * cm
        Hd = numpy.diag(e)
        Hd[2, 3] = Hd[3, 2] = 80.0 * cm
        blocks = [0, 2, 4]

        def stored(unit, depth):
            H = qr.Hamiltonian(data=Hd.copy())
            with contextlib.ExitStack() as st:
                for k in range(depth):
                    st.enter_context(qr.energy_units(["eV", "THz", "meV"][k % 3]))
                if unit is not None:
                    st.enter_context(qr.energy_units(unit))
                H.set_rwa(blocks)
            out = {"rwa_energies": numpy.array(H.rwa_energies, dtype=float), "skeleton[int]": numpy.array(H.get_RWA_skeleton(), dtype=float),
                   "RWA_data[int]": numpy.array(H.get_RWA_data(), dtype=float)}
            reads = {}
            for u2 in ("1/cm", "eV", "THz"):
                with qr.energy_units(u2):
                    reads[u2] = numpy.array(H.get_RWA_skeleton(), dtype=float)
            return out, reads
        with ctx.lib("set_rwa in internal units"):
            ref, ref_reads = stored(None, 0)
        want = numpy.zeros(dim)
        for b, (lo, hi) in enumerate(zip(blocks, blocks[1:] + [dim])):
            want[lo:hi] = numpy.mean(e[lo:hi])
        ctx.check("stored-value-context-independent", float(numpy.max(numpy.abs(ref["skeleton[int]"] - want))), RTOL * float(numpy.max(want)), {"accessor": "Hamiltonian.set_rwa / get_RWA_skeleton", "what": "block averages (internal units)"})
        for unit in [u for u in EUNITS if u != "nm"]:
            for depth in (0, 2):
                try:
                    with ctx.lib("set_rwa under " + unit):
                        got, reads = stored(unit, depth)
                except Exception as ex:
                    if type(ex).__name__ == "LibRaised":
                        continue
                    raise
                for k in ref:
                    ctx.check("stored-value-context-independent", float(numpy.max(numpy.abs(got[k] - ref[k]))), RTOL * float(numpy.max(numpy.abs(ref[k]))) + 1e-300,
                              {"accessor": "Hamiltonian.set_rwa", "unit": unit, "nesting_depth": depth, "what": k})
                for u2, v in reads.items():
                    ctx.check("accessor-conversion", float(numpy.max(numpy.abs(v - want / E_FAC[u2]))), RTOL * float(numpy.max(want / E_FAC[u2])),
                              {"accessor": "get_RWA_skeleton", "u1": unit, "u2": u2, "what": "RWA energies set under u1, read under u2"})
                ctx.sub(("rwa", unit, depth), nontrivial=True)
        # the same through a molecule whose Hamiltonian exists already
        for unit in ("1/cm", "eV"):
            with ctx.lib("Molecule.set_electronic_rwa under " + unit):
                res = []
                for u in (None, unit):
                    with qr.energy_units("1/cm"):
                        mo = qr.Molecule([0.0, 12000.0, 24500.0])
                    Hm = mo.get_Hamiltonian()
                    with (qr.energy_units(u) if u else contextlib.nullcontext()):
                        mo.set_electronic_rwa([0, 1, 2])
                    Hm2 = mo.get_Hamiltonian()
                    res.append(numpy.array(Hm2.get_RWA_skeleton(), dtype=float))
            ctx.check("stored-value-context-independent", float(numpy.max(numpy.abs(res[0] - res[1]))), RTOL * float(numpy.max(numpy.abs(res[0]))) + 1e-300,
                      {"accessor": "Molecule.set_electronic_rwa after get_Hamiltonian", "unit": unit})
        ctx.key(("rwa", case["seed"]))
        ctx.nontrivial(True)
        return

    if cls == "cutoff-arguments":
        # energy-valued ARGUMENTS of library calls are units managed too: the same physical cut-off supplied under any
        # unit must select the same couplings (stored Hamiltonian / remainder coupling / tensor independent of the context)
        from qrv.oracles.units import E_FAC
        cm = E_FAC["1/cm"]
        Hd = numpy.diag([0.0, 12000.0, 12100.0, 12250.0, 12400.0]) * cm
        Jcm = {(1, 2): 30.0, (2, 3): -80.0, (3, 4): 200.0, (1, 4): -45.0, (1, 3): 55.0, (2, 4): 120.0}
        for (a, b), v in Jcm.items():
            Hd[a, b] = Hd[b, a] = v * cm
        cut_cm = case["cut_cm"]

        def run(unit):
            c = U.e_from_int(cut_cm * cm, unit) if unit is not None else cut_cm * cm
            out = {}
            for how in ("remove", "subtract", "diagonalize"):
                H = qr.Hamiltonian(data=Hd.copy())
                with (qr.energy_units(unit) if unit is not None else contextlib.nullcontext()):
                    cc = c if unit is not None else cut_cm * cm
                    if how == "remove":
                        H.remove_cutoff_coupling(cc)
                    elif how == "subtract":
                        H.subtract_cutoff_coupling(cc)
                    else:
                        H.diagonalize(coupling_cutoff=cc)
                        H.undiagonalize()
                out[how] = (numpy.array(H._data, copy=True), numpy.array(H.JR, copy=True) if getattr(H, "JR", None) is not None else None)
            s = build.gen_system(numpy.random.default_rng(case["seed"]), N=3, Nt=100, dt=1.0, dipoles=False)
            s["J"] = [[0.0, 30.0, 120.0], [30.0, 0.0, -70.0], [120.0, -70.0, 0.0]]
            agg, t, cfs = build.make_aggregate(s)
            with (qr.energy_units(unit) if unit is not None else contextlib.nullcontext()):
                cc = c if unit is not None else cut_cm * cm
                with contextlib.redirect_stdout(io.StringIO()):
                    R, hR = agg.get_RelaxationTensor(t, relaxation_theory="cRF", coupling_cutoff=cc)
            out["cRF"] = (numpy.array(hR._data, copy=True), numpy.array(R._data, copy=True))
            return out
        with ctx.lib("cut-off functions, internal units"):
            ref = run(None)
        for unit in [u for u in EUNITS if u not in ("nm",)]:
            try:
                with ctx.lib("cut-off functions under " + unit):
                    got = run(unit)
            except Exception as e:
                if type(e).__name__ == "LibRaised":
                    continue
                raise
            for how in ref:
                for k in range(2):
                    a, b = ref[how][k], got[how][k]
                    if a is None and b is None:
                        continue
                    ok = a is not None and b is not None and a.shape == b.shape
                    res = float(numpy.max(numpy.abs(a - b))) if ok else float("inf")
                    ctx.check("stored-value-context-independent", res, RTOL * float(numpy.max(numpy.abs(a))) + 1e-300,
                              {"accessor": "coupling cut-off argument: " + how, "unit": unit, "cutoff_cm": cut_cm, "what": ["Hamiltonian", "remainder/tensor"][k]})
                ctx.sub(("cutoff", how, unit), nontrivial=True)
        ctx.key(("cutoff", cut_cm))
        ctx.nontrivial(True)
        return

    if cls == "length-pairs":
        for u1 in LUNITS:
            for u2 in LUNITS:
                x = 1.2345
                with qr.length_units(u1):
                    li = m.convert_length_2_internal_u(x)
                with qr.length_units(u2):
                    got = m.convert_length_2_current_u(li)
                want = x * U.L_FAC[u1] / U.L_FAC[u2]
                ctx.check("length-conversion", abs(got - want), RTOL * abs(want), {"u1": u1, "u2": u2, "got": got, "want": want})
                ctx.sub(("length", u1, u2), nontrivial=(u1 != u2))
        ctx.check("context-restores-units", 0.0 if m.get_current_units("length") == "A" else 1.0, 0.0, {"units": m.get_current_units("length")})
        ctx.key(("length",))
        ctx.nontrivial(True)
        return

    if cls == "context-program":
        prog = case["prog"]

        class Boom(Exception):
            pass

        def cur():
            return (m.get_current_units("energy"), m.get_current_units("length"))

        def mk(kind, unit):
            if kind == "energy":
                return qr.energy_units(unit)
            if kind == "frequency":
                return qr.frequency_units(unit) if hasattr(qr, "frequency_units") else __import__("quantarhei.core.managers", fromlist=["x"]).frequency_units(unit)
            return qr.length_units(unit)
        base = cur()

        def same(a, b):
            norm = lambda e: "1/fs" if e == "int" else e
            return norm(a[0]) == norm(b[0]) and a[1] == b[1]

        def descend(level, expected):
            if level == case["raise_at"]:
                raise Boom()
            if level >= len(prog):
                return
            kind, unit = prog[level]
            inner = (unit, expected[1]) if kind != "length" else (expected[0], unit)
            try:
                with (objs[level] if objs is not None else mk(kind, unit)):
                    ctx.require("context-sets-units", cur() == inner, {"level": level, "want": inner, "got": cur(), "prog": prog})
                    ctx.require("context-sets-units", m._in_energy_units_context or kind == "length" or True, {})
                    descend(level + 1, inner)
                    ctx.require("context-restores-units", cur() == inner, {"level": level, "after": "inner context left normally", "want": inner, "got": cur(), "prog": prog})
            except Boom:
                ctx.require("context-restores-units", same(cur(), expected),
                            {"level": level, "after": "exception", "want": expected, "got": cur(), "prog": prog, "raise_at": case["raise_at"]})
                if level != case["catch_at"]:
                    raise
            ctx.require("context-restores-units", same(cur(), expected), {"level": level, "after": "exit", "want": expected, "got": cur(), "prog": prog})
        # context objects may be created ahead of their use (as the package's own examples do: e_units = qr.energy_units("1/cm")),
        # at top level or while other units are active, and be entered more than once
        create = case.get("create", "inline")
        objs = None
        if create == "top":
            objs = [mk(k, u) for (k, u) in prog]
        elif create == "foreign":
            with qr.energy_units("THz"):
                with qr.length_units("nm"):
                    objs = [mk(k, u) for (k, u) in prog]
            ctx.require("context-restores-units", same(cur(), base), {"after": "creating context objects inside another context", "got": cur()})
        for rnd in range(2 if (objs is not None and case["raise_at"] < 0) else 1):
            try:
                descend(0, base)
            except Boom:
                pass
        ctx.event("context_programs_" + create)
        ctx.require("context-restores-units", same(cur(), base) and m._in_eu_count == 0 and not m._in_energy_units_context,
                    {"after": "whole program", "got": cur(), "eu_count": m._in_eu_count, "flag": m._in_energy_units_context, "prog": prog})
        ctx.key(("prog", tuple(map(tuple, prog)), case["raise_at"], case["catch_at"], create))
        ctx.nontrivial(len(prog) >= 2)
        return

    # -------------------------------------------------------- library-calls
    run_library_calls(case, ctx, qr, m)


def entry_points(qr, case, work):
    """(name, thunk) pairs; thunks share state through the dict `S`"""
    import numpy as np
    S = {}
    desc = case["sys"]
    eps = []

    def ep(name):
        def deco(f):
            eps.append((name, f))
            return f
        return deco

    @ep("make_aggregate(build)")
    def _():
        S["agg"], S["t"], S["cfs"] = build.make_aggregate(desc)

    @ep("Aggregate.rebuild")
    def _():
        S["agg"].rebuild()

    @ep("Aggregate.get_Hamiltonian")
    def _():
        S["H"] = S["agg"].get_Hamiltonian()

    @ep("Aggregate.get_TransitionDipoleMoment")
    def _():
        S["D"] = S["agg"].get_TransitionDipoleMoment()

    @ep("Aggregate.get_SystemBathInteraction")
    def _():
        S["sbi"] = S["agg"].get_SystemBathInteraction()

    for th, kw in (("stR", {}), ("stR", {"time_dependent": True}), ("stR", {"as_operators": True}), ("stR", {"secular_relaxation": True}),
                   ("stF", {}), ("stF", {"time_dependent": True}), ("cRF", {"coupling_cutoff": 0.002})):
        def mk(th=th, kw=kw):
            def f():
                S["R"], S["HR"] = S["agg"].get_RelaxationTensor(S["t"], relaxation_theory=th, **kw)
            return f
        eps.append(("get_RelaxationTensor(%s,%s)" % (th, ",".join(sorted(kw))), mk()))

    @ep("get_ReducedDensityMatrixPropagator(stR)")
    def _():
        S["prop"] = S["agg"].get_ReducedDensityMatrixPropagator(S["t"], relaxation_theory="stR")

    @ep("get_DensityMatrix(thermal_excited_state)")
    def _():
        S["rho"] = S["agg"].get_DensityMatrix(condition_type="thermal_excited_state", temperature=300.0)

    @ep("get_DensityMatrix(thermal)")
    def _():
        S["agg"].get_DensityMatrix(condition_type="thermal", temperature=300.0)

    @ep("get_DensityMatrix(impulsive_excitation)")
    def _():
        S["agg"].get_DensityMatrix(condition_type="impulsive_excitation", temperature=300.0)

    @ep("ReducedDensityMatrixPropagator.propagate")
    def _():
        S["ev"] = S["prop"].propagate(S["rho"])

    @ep("get_RedfieldRateMatrix")
    def _():
        S["agg"].get_RedfieldRateMatrix()

    @ep("get_FoersterRateMatrix")
    def _():
        S["agg"].get_FoersterRateMatrix()

    @ep("Aggregate.diagonalize")
    def _():
        S["agg"].diagonalize()

    @ep("AbsSpectrumCalculator.bootstrap+calculate")
    def _():
        a2, t2, _c = build.make_aggregate(desc)
        calc = qr.AbsSpectrumCalculator(t2, a2)
        calc.bootstrap()
        S["abs"] = calc.calculate()

    @ep("KTHierarchy+propagate")
    def _():
        from quantarhei.qm.liouvillespace.heom import KTHierarchy, KTHierarchyPropagator
        d2 = dict(desc, bath=[dict(b, ftype="OverdampedBrownian-HighTemperature") for b in desc["bath"]], Nt=30)
        a2, t2, _c = build.make_aggregate(d2)
        with contextlib.redirect_stdout(io.StringIO()):
            hy = KTHierarchy(a2.get_Hamiltonian(), a2.get_SystemBathInteraction(), 2)
        r0 = qr.ReducedDensityMatrix(dim=a2.get_Hamiltonian().dim)
        r0.data[1, 1] = 1.0
        KTHierarchyPropagator(t2, hy).propagate(r0)

    @ep("CorrelationFunction arithmetic")
    def _():
        c = S["cfs"][0]
        S["sum"] = c + c
        c2 = c.copy()
        c2 += c

    @ep("CorrelationFunction transforms")
    def _():
        c = S["cfs"][0]
        c.get_SpectralDensity()
        c.get_FTCorrelationFunction()
        c.get_EvenFTCorrelationFunction()
        c.measure_reorganization_energy()
        c.get_reorganization_energy()

    def _bath(ftype, cls):
        def run():
            tb = qr.TimeAxis(0.0, 300, 1.0)
            with qr.energy_units("1/cm"):
                prm = dict(ftype=ftype, reorg=35.0, T=300.0)
                if ftype == "UnderdampedBrownian":
                    prm.update(freq=400.0, gamma=1.0 / 120.0 / 1.8836515e-4)
                else:
                    prm.update(cortime=80.0)
                f = cls(tb, prm)
                g = cls(tb, dict(ftype="OverdampedBrownian", reorg=20.0, cortime=60.0, T=300.0))
            f.copy() if hasattr(f, "copy") else None
            h = f + g
            h2 = g + f
            f2 = cls(tb, f.params)
            f2 += f2
            f2 += g
            h.get_reorganization_energy()
            if cls is qr.CorrelationFunction:
                f.get_SpectralDensity()
                f.get_FTCorrelationFunction()
                f.get_OddFTCorrelationFunction()
                f.get_EvenFTCorrelationFunction()
                h.get_FTCorrelationFunction()
            else:
                f.get_CorrelationFunction()
                f.get_FTCorrelationFunction()
        return run
    for _ft in ("OverdampedBrownian", "OverdampedBrownian-HighTemperature", "UnderdampedBrownian"):
        for _cls in (qr.CorrelationFunction, qr.SpectralDensity):
            eps.append(("bath functions [%s %s]: copy, sums, transforms" % (_cls.__name__, _ft), _bath(_ft, _cls)))

    @ep("TimeAxis/FrequencyAxis/DFunction transforms")
    def _():
        t = S["t"]
        w = t.get_FrequencyAxis()
        w.get_TimeAxis()
        f = qr.DFunction(t, np.exp(-t.data / 50.0))
        F = f.get_Fourier_transform()
        F.get_inverse_Fourier_transform()

    @ep("Saveable.save/load_parcel")
    def _():
        from quantarhei.core.parcel import load_parcel
        fn = os.path.join(work, "x.qrp")
        S["H"].save(fn)
        load_parcel(fn)
        S["cfs"][0].save(fn)
        load_parcel(fn)
        S["agg"].save(fn)
        load_parcel(fn)

    @ep("EvolutionSuperOperator.calculate")
    def _():
        t2 = qr.TimeAxis(0.0, 4, 10.0)
        R, H = S["agg"].get_RelaxationTensor(S["t"], relaxation_theory="stR")
        eU = qr.EvolutionSuperOperator(t2, H, R)
        eU.set_dense_dt(5)
        eU.calculate(show_progress=False)

    @ep("eigenbasis_of reads")
    def _():
        H = S["H"]
        with qr.eigenbasis_of(H):
            _ = H.data[1, 1]
            _ = S["R"].data if hasattr(S["R"], "data") and not getattr(S["R"], "as_operators", False) else None
            _ = S["ev"].data[1]

    @ep("LindbladForm + propagate")
    def _():
        H = S["H"]
        K = qr.qm.ProjectionOperator(1, 2, dim=H.dim)
        sbi = qr.qm.SystemBathInteraction(sys_operators=[K], rates=[1.0 / 200.0])
        L = qr.qm.LindbladForm(H, sbi)
        p = qr.qm.ReducedDensityMatrixPropagator(qr.TimeAxis(0.0, 20, 1.0), H, L)
        r0 = qr.ReducedDensityMatrix(dim=H.dim)
        r0.data[2, 2] = 1.0
        p.propagate(r0)

    @ep("Molecule with modes: get_Hamiltonian, thermal RDM")
    def _():
        with qr.energy_units("1/cm"):
            mo = qr.Molecule([0.0, 12000.0])
            md = qr.Mode(300.0)
        mo.add_Mode(md)
        md.set_nmax(0, 3)
        md.set_nmax(1, 3)
        md.set_HR(1, 0.3)
        mo.get_Hamiltonian()
        mo.get_thermal_ReducedDensityMatrix()
        a3 = qr.Aggregate([mo])
        a3.build()
        a3.get_Hamiltonian()

    @ep("set_coupling_by_dipole_dipole")
    def _():
        m1 = qr.Molecule([0.0, 1.0])
        m2 = qr.Molecule([0.0, 1.1])
        m1.set_dipole(0, 1, [1.0, 0.0, 0.0])
        m2.set_dipole(0, 1, [0.0, 1.0, 1.0])
        m1.position = np.array([0.0, 0.0, 0.0])
        m2.position = np.array([5.0, 3.0, 1.0])
        a = qr.Aggregate([m1, m2])
        a.set_coupling_by_dipole_dipole(epsr=2.0)
        a.build(mult=2)

    @ep("StateVectorPropagator.propagate")
    def _():
        from quantarhei.qm.propagators.svpropagator import StateVectorPropagator
        H = S["H"]
        psi = qr.StateVector(data=np.eye(H.dim)[1].astype(complex))
        StateVectorPropagator(qr.TimeAxis(0.0, 10, 1.0), H).propagate(psi)

    @ep("PopulationPropagator")
    def _():
        from quantarhei.qm.propagators.poppropagator import PopulationPropagator
        K = np.array([[-0.01, 0.002], [0.01, -0.002]])
        ta = qr.TimeAxis(0.0, 50, 1.0)
        pp = PopulationPropagator(ta, K)
        pp.propagate([1.0, 0.0])
        pp.get_PropagationMatrix(qr.TimeAxis(0.0, 5, 10.0))

    @ep("Hamiltonian RWA helpers")
    def _():
        H = S["H"]
        H.get_RWA_skeleton()
        H.has_rwa
    return eps


def run_library_calls(case, ctx, qr, m):
    work = os.environ.get("QRV_WORK", "/tmp")
    work = os.path.join(work, "c05-%d" % os.getpid())
    os.makedirs(work, exist_ok=True)
    rng = numpy.random.default_rng(case["seed"])
    eps = entry_points(qr, case, work)
    units_ctx = case["ctx"]
    # the first entry points create shared state and always run; of the rest
    # this case runs one quarter (parts keep cases short)
    head = eps[:5]
    rest = eps[5:]
    needed = {"get_ReducedDensityMatrixPropagator(stR)", "get_DensityMatrix(thermal_excited_state)",
              "ReducedDensityMatrixPropagator.propagate", "get_RelaxationTensor(stR,)"}
    mine = [e for i, e in enumerate(rest) if (i % 4 == case["part"]) or e[0] in needed]
    order = head + mine
    ctx.leak.take_offenders()
    with contextlib.ExitStack() as stack:
        for u in units_ctx:
            stack.enter_context(qr.energy_units(u))
        expected = m.get_current_units("energy")
        for name, fn in order:
            before = m.get_current_units("energy")
            raised = None
            try:
                with contextlib.redirect_stdout(io.StringIO()):
                    fn()
            except Exception as e:
                raised = repr(e)[:160]
                ctx.event("entry_point_raised")
                ctx.notes.setdefault("raised", {})[name] = raised
            after = m.get_current_units("energy")
            norm = lambda e: "1/fs" if e == "int" else e
            det = {"entry_point": name, "context": units_ctx, "before": before, "after": after, "raised": raised}
            ctx.require("library-call-keeps-units", norm(after) == norm(before), det, mechanism="units-changed-by:" + name)
            offs = ctx.leak.take_offenders()
            unit_offs = [o for o in offs if any(k in o["changed"] for k in ("current_units", "_in_eu_count", "_in_energy_units_context"))]
            ctx.require("library-call-keeps-units", not unit_offs,
                        dict(det, offenders=unit_offs[:3]), mechanism="frame-leaks-units:" + (unit_offs[0]["function"] if unit_offs else ""))
            ctx.event("entry_points_run")
            ctx.sub((name, tuple(units_ctx)), nontrivial=bool(units_ctx) and raised is None)
            if norm(after) != norm(before):
                # put the expected units back so that the next entry point is judged on its own
                m.current_units["energy"] = before
    ctx.require("context-restores-units", m.get_current_units("energy") in ("1/fs", "int") and m._in_eu_count == 0,
                {"after": "library-calls program", "units": m.get_current_units("energy")})
    ctx.key(("lib", tuple(units_ctx), case["part"]))
    ctx.nontrivial(bool(units_ctx))
    import shutil
    shutil.rmtree(work, ignore_errors=True)


def extra_coverage(tier, results):
    raised = {}
    for r in results:
        for k, v in (r.get("notes", {}).get("raised") or {}).items():
            raised.setdefault(k, v)
    return {"entry_points_that_raised": raised}
