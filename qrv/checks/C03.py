"""C03  Aggregate Hamiltonian and dipole operator are the Frenkel-exciton ones.

The Hamiltonian / transition-dipole operator returned by real Aggregate
builds are compared element by element (addressed through the states'
electronic signatures) with an independently coded occupation-set Frenkel
model; permutation and unit-context runs are metamorphic comparisons of two
real builds; dipole-dipole couplings are compared with the SI point-dipole
formula evaluated from scipy.constants.
"""
import itertools
import math
import numpy
from qrv.build import r3
from qrv.oracles import units as U

LEVEL = "exploration"
RULE = ("random aggregates of 1-6 two-level molecules (mult 2 up to 5 molecules, thorough 6), symmetric coupling matrices with zeros and mixed signs, "
        "degenerate energies, random dipoles; every permutation of the molecule list for N<=4 (3 random ones above); parameters supplied under each "
        "energy unit and built inside/outside unit contexts; random geometries (incl. collinear and orthogonal) for the point-dipole formula with "
        "eps_r in [1,4]; every aggregate is re-parameterised afterwards (set_energy, assignment of the elenergies array, set_dipole, set_resonance_coupling) and rebuilt. distinct = (class, N, mult, unit, coupling sparsity pattern, rounded parameters); "
        "non-trivial iff at least one non-zero coupling and, for mult 2, at least one pair of two-exciton states differing by one move.")
RULE = RULE + " Round-6 workloads: dipole arrays replaced as a whole; deepcopy/scopy of a built aggregate changed and rebuilt, the original re-read afterwards."
RULE = RULE + " Round-7 workloads: one third of the matrix-API builds gives the coupling matrix to an empty aggregate first and adds the molecules afterwards."
ASSUMPTIONS = ["two-level molecules without vibrational modes (vibronic structure is C10's domain)",
               "within a band the order of states is left to the implementation: elements are addressed through Aggregate.elsigs"]
MIN_NONTRIVIAL = {"quick": 100, "thorough": 900}
REQUIRED_CLAUSES = ["hamiltonian==frenkel", "dipole==frenkel", "band-order", "permutation-invariant", "unit-independent", "dipole-dipole==SI"]
TIMEOUT = {"quick": 900, "thorough": 3400}
EPS = numpy.finfo(float).eps
EUNITS = ["1/cm", "eV", "meV", "THz", "int", "1/fs"]


def gen_cases(tier, rng):
    cases = []
    n = 110 if tier == "quick" else 900
    for i in range(n):
        N = int(rng.integers(1, 7))
        mult = int(rng.integers(1, 3))
        if mult == 2 and N > (5 if tier == "quick" else 6):
            mult = 1
        E = [r3(rng.uniform(9000, 20000)) for _ in range(N)]
        if N >= 2 and rng.random() < 0.25:
            E[1] = E[0]
        J = numpy.zeros((N, N))
        for a in range(N):
            for b in range(a + 1, N):
                J[a, b] = J[b, a] = 0.0 if rng.random() < 0.25 else r3(rng.uniform(1, 500) * rng.choice([-1, 1]))
        dip = [[r3(x) for x in rng.normal(size=3) * rng.uniform(0.5, 6)] for _ in range(N)]
        unit = str(rng.choice(EUNITS))
        cases.append({"cls": "frenkel", "N": N, "mult": mult, "E": E, "J": J.tolist(), "dip": dip, "unit": unit,
                      "build_ctx": str(rng.choice(["none", "1/cm", "eV", "same"])),
                      "coupling_api": str(rng.choice(["pairwise", "matrix"])),
                      "seed": int(rng.integers(1 << 30)), "cost": 1 + (N ** mult) / 4.0})
    ng = 70 if tier == "quick" else 600
    for i in range(ng):
        N = int(rng.integers(2, 5))
        kind = str(rng.choice(["random", "collinear", "orthogonal", "random"]))
        pos, dip = [], []
        for k in range(N):
            pos.append([r3(x) for x in rng.uniform(-30, 30, size=3)])
            dip.append([r3(x) for x in rng.normal(size=3) * rng.uniform(1, 8)])
        if kind == "collinear":
            ax = rng.normal(size=3)
            ax /= numpy.linalg.norm(ax)
            for k in range(N):
                pos[k] = [r3(x) for x in ax * (k + 1) * rng.uniform(5, 15)]
                dip[k] = [r3(x) for x in ax * rng.uniform(1, 8)]
        elif kind == "orthogonal":
            for k in range(N):
                pos[k] = [r3((k + 1) * rng.uniform(5, 15)), 0.0, 0.0]
                dip[k] = [0.0, r3(rng.uniform(1, 8)), 0.0] if k % 2 == 0 else [0.0, 0.0, r3(rng.uniform(1, 8))]
        if i % 7 == 3 and N >= 3:
            # two molecules at the same place (e.g. the Qy and Qx transitions of one pigment), not the last pair of their row
            kind = "coincident"
            a0 = int(rng.integers(0, N - 2))
            b0 = int(rng.integers(a0 + 1, N - 1))
            pos[b0] = list(pos[a0])
        # how the user hands over the geometry: float arrays, plain lists/tuples, integer grid coordinates (Python ints or int arrays)
        ptype = ["float-array", "int-list", "float-list", "int-array", "mixed"][i % 5]
        if ptype.startswith("int") or ptype == "mixed":
            used = set()
            for k in range(N):
                while True:
                    q = tuple(int(x) for x in rng.integers(-12, 13, size=3) * (1 if kind != "orthogonal" else numpy.array([1, 0, 0])))
                    if kind == "collinear":
                        q = tuple(int(x) for x in numpy.array([1, 2, -1]) * int(rng.integers(-9, 10)))
                    if q not in used and (kind != "orthogonal" or q[0] != 0 or not used):
                        used.add(q)
                        break
                pos[k] = [float(x) for x in q] if (ptype == "mixed" and k % 2 == 0) else [int(x) for x in q]
            if kind == "collinear":
                for k in range(N):
                    dip[k] = [r3(x) for x in numpy.array([1.0, 2.0, -1.0]) / numpy.sqrt(6.0) * rng.uniform(1, 8)]
        cases.append({"cls": "dipole-dipole", "N": N, "kind": kind, "pos": pos, "dip": dip, "epsr": r3(rng.uniform(1.0, 4.0)), "ptype": ptype,
                      "lunit": "A", "ectx": str(rng.choice(["none", "1/cm", "eV"])), "cost": 1})
    return cases


def frenkel_model(E, J, dip, mult):
    N = len(E)
    states = [()] + [(i,) for i in range(N)]
    if mult >= 2:
        states += [(i, j) for i in range(N) for j in range(i + 1, N)]
    M = len(states)
    H = numpy.zeros((M, M))
    D = numpy.zeros((M, M, 3))
    for a, s in enumerate(states):
        H[a, a] = sum(E[i] for i in s)
        for b, u in enumerate(states):
            if a == b:
                continue
            ss, uu = set(s), set(u)
            if len(s) == len(u) and len(s) > 0:
                ds, du = ss - uu, uu - ss
                if len(ds) == 1 and len(du) == 1:
                    H[a, b] = J[next(iter(ds)), next(iter(du))]
            if abs(len(s) - len(u)) == 1:
                big, small = (ss, uu) if len(s) > len(u) else (uu, ss)
                if small <= big:
                    D[a, b] = dip[next(iter(big - small))]
    return states, H, D


def build_agg(qr, case, order, unit, build_ctx, with_dip=True):
    import contextlib
    N = case["N"]
    E = [U.e_from_int(U.e_to_int(case["E"][i], "1/cm"), unit) for i in order]
    Jcm = numpy.array(case["J"])
    with qr.energy_units(unit):
        mols = [qr.Molecule([0.0, float(e)]) for e in E]
        if with_dip:
            for k, i in enumerate(order):
                mols[k].set_dipole(0, 1, [float(x) for x in case["dip"][i]])
        matrix_first = (case["coupling_api"] == "matrix" and N > 1 and case["seed"] % 3 == 0)
        # the order of the specification calls is the program's business: molecules handed to the constructor, or an empty aggregate
        # that is given its coupling matrix first and its molecules afterwards
        agg = qr.Aggregate(name="agg") if matrix_first else qr.Aggregate(molecules=mols)
        if case["coupling_api"] == "matrix" and N > 1:
            Jm = numpy.zeros((N, N))
            for a in range(N):
                for b in range(N):
                    if a != b:
                        Jm[a, b] = U.e_from_int(U.e_to_int(Jcm[order[a], order[b]], "1/cm"), unit)
            agg.set_resonance_coupling_matrix(Jm)
            if matrix_first:
                for m_ in mols:
                    agg.add_Molecule(m_)
        else:
            for a in range(N):
                for b in range(a + 1, N):
                    v = Jcm[order[a], order[b]]
                    if v != 0:
                        agg.set_resonance_coupling(a, b, float(U.e_from_int(U.e_to_int(v, "1/cm"), unit)))
    ctxm = contextlib.nullcontext() if build_ctx == "none" else qr.energy_units(unit if build_ctx == "same" else build_ctx)
    with ctxm:
        agg.build(mult=case["mult"])
    return agg


def moments(H, D, lo, hi):
    """basis independent dipole-strength moments of the transitions lo-band -> hi-band:
    M_p = sum_x tr( D_x[lo,hi] H[hi,hi]^p D_x[hi,lo] )"""
    out = []
    Hh = H[numpy.ix_(hi, hi)]
    sc = float(numpy.max(numpy.abs(numpy.diag(Hh)))) or 1.0
    Hn = Hh / sc
    for p in range(4):
        P = numpy.linalg.matrix_power(Hn, p)
        m = 0.0
        for x in range(3):
            A = D[numpy.ix_(lo, hi)][:, :, x]
            m += float(numpy.trace(A @ P @ A.T))
        out.append(m)
    return numpy.array(out)


def run_case(case, ctx):
    import quantarhei as qr
    cls = case["cls"]
    if cls == "frenkel":
        N, mult = case["N"], case["mult"]
        rng = numpy.random.default_rng(case["seed"])
        Eint = [U.e_to_int(e, "1/cm") for e in case["E"]]
        Jint = numpy.array(case["J"]) * U.E_FAC["1/cm"]
        dip = numpy.array(case["dip"], dtype=float)
        scale = max(Eint) * mult
        tolH = 1e-7 * scale          # unit conversion constants of the library are CODATA-2014
        ident = list(range(N))
        # what the program did with the built aggregate before it asked for the operators: nothing; diagonalize() (as the pure-dephasing,
        # pathway and mock-spectrum code does implicitly); first request made inside a basis context; a second build
        first_use = ["plain", "diagonalize-first", "plain", "first-request-inside-a-context", "rebuild-then-diagonalize", "dipoles-first"][case["seed"] % 6]
        with ctx.lib("Aggregate build (" + first_use + ")"):
            agg = build_agg(qr, case, ident, case["unit"], case["build_ctx"])
            if first_use == "diagonalize-first":
                agg.diagonalize()
            elif first_use == "rebuild-then-diagonalize":
                agg.get_TransitionDipoleMoment()
                agg.rebuild(mult=case["mult"])
                agg.diagonalize()
            elif first_use == "first-request-inside-a-context":
                Hc = agg.get_Hamiltonian()
                with qr.eigenbasis_of(Hc):
                    agg.get_TransitionDipoleMoment()
            if first_use == "dipoles-first":
                D = numpy.array(agg.get_TransitionDipoleMoment().data, dtype=float)
                agg.diagonalize()
                H = numpy.array(agg.get_Hamiltonian().data, dtype=float)
            else:
                H = numpy.array(agg.get_Hamiltonian().data, dtype=float)
                D = numpy.array(agg.get_TransitionDipoleMoment().data, dtype=float)
            sigs = [tuple(i for i, x in enumerate(s) if x) for s in agg.elsigs]
            Nb = [int(x) for x in agg.Nb]
            wb = [int(agg.which_band[i]) for i in range(len(sigs))]
        states, Href, Dref = frenkel_model(Eint, Jint, dip, mult)
        det = {"N": N, "mult": mult, "unit": case["unit"], "build_ctx": case["build_ctx"]}
        ok = sorted(sigs) == sorted(states) and len(set(sigs)) == len(sigs)
        ctx.require("band-order", ok, dict(det, what="state set", got=sigs[:12]))
        ctx.require("band-order", all(len(sigs[i]) <= len(sigs[i + 1]) for i in range(len(sigs) - 1)), dict(det, what="states not ordered by band"))
        ctx.require("band-order", wb == [len(s) for s in sigs], dict(det, what="which_band", got=wb[:12]))
        ctx.require("band-order", Nb == [math.comb(N, k) for k in range(mult + 1)], dict(det, what="Nb", got=Nb))
        ctx.require("band-order", H.shape == Href.shape and D.shape == Dref.shape, dict(det, what="shape", got=list(H.shape)))
        if ctx.violations:
            return
        pos = {s: i for i, s in enumerate(states)}
        idx = [pos[s] for s in sigs]
        Hr = Href[numpy.ix_(idx, idx)]
        Dr = Dref[numpy.ix_(idx, idx)]
        ctx.check("hamiltonian==frenkel", float(numpy.max(numpy.abs(H - Hr))), tolH, dict(det, scale=scale))
        ctx.check("hamiltonian==frenkel", float(numpy.max(numpy.abs(H - H.T))), 0.0 + 4 * EPS * scale, dict(det, what="symmetric"))
        inter = max([abs(H[a, b]) for a in range(len(sigs)) for b in range(len(sigs)) if wb[a] != wb[b]] or [0.0])
        ctx.check("hamiltonian==frenkel", inter, 0.0, dict(det, what="inter-band element"))
        ctx.check("dipole==frenkel", float(numpy.max(numpy.abs(D - Dr))), 1e-12 * float(numpy.max(numpy.abs(dip))), det)

        # --- permutations of the molecule list
        bands = [[i for i in range(len(sigs)) if wb[i] == k] for k in range(mult + 1)]
        ev0 = numpy.sort(numpy.linalg.eigvalsh(H))
        mult_eff = max(k for k in range(mult + 1) if bands[k])      # N=1, mult=2 has no two-exciton band
        mom0 = [moments(H, D, bands[k], bands[k + 1]) for k in range(mult_eff)]
        if N <= 4:
            perms = [list(p) for p in itertools.permutations(range(N))][1:]
        else:
            perms = [list(rng.permutation(N)) for _ in range(3)]
        for p in perms:
            p = [int(x) for x in p]
            with ctx.lib("Aggregate build (permuted molecule list)"):
                ag2 = build_agg(qr, case, p, case["unit"], case["build_ctx"])
                H2 = numpy.array(ag2.get_Hamiltonian().data, dtype=float)
                D2 = numpy.array(ag2.get_TransitionDipoleMoment().data, dtype=float)
                wb2 = [int(ag2.which_band[i]) for i in range(H2.shape[0])]
            ev2 = numpy.sort(numpy.linalg.eigvalsh(H2))
            ctx.check("permutation-invariant", float(numpy.max(numpy.abs(ev2 - ev0))), 1e-11 * scale, dict(det, perm=p, what="spectrum"))
            b2 = [[i for i in range(len(wb2)) if wb2[i] == k] for k in range(mult + 1)]
            for k in range(mult_eff):
                m2 = moments(H2, D2, b2[k], b2[k + 1])
                ctx.check("permutation-invariant", float(numpy.max(numpy.abs(m2 - mom0[k]))), 1e-10 * float(numpy.max(numpy.abs(mom0[k])) + 1e-300),
                          dict(det, perm=p, what="dipole-strength moments of band %d->%d" % (k, k + 1)))
        # --- other units / build contexts
        for unit, bctx in (("1/cm", "none"), ("eV", "1/cm"), ("THz", "same"), ("int", "eV")):
            if unit == case["unit"] and bctx == case["build_ctx"]:
                continue
            with ctx.lib("Aggregate build (other units)"):
                ag3 = build_agg(qr, case, ident, unit, bctx)
                H3 = numpy.array(ag3.get_Hamiltonian().data, dtype=float)
                D3 = numpy.array(ag3.get_TransitionDipoleMoment().data, dtype=float)
            ctx.check("unit-independent", float(numpy.max(numpy.abs(H3 - H))), 1e-7 * scale, dict(det, other_unit=unit, other_build_ctx=bctx))
            ctx.check("unit-independent", float(numpy.max(numpy.abs(D3 - D))), 1e-12 * float(numpy.max(numpy.abs(dip))), dict(det, other_unit=unit, what="dipoles"))
        # --- the SAME aggregate and molecules after the program changed their parameters and rebuilt: the operators follow the molecules as
        #     they are at build time, whichever public route changed them (set_energy in a units context; the elenergies property, which
        #     holds internal units; set_dipole; set_resonance_coupling)
        route = ["set_energy", "elenergies-assign", "mixed"][(case["seed"] // 6) % 3]
        E2 = [float(e) * (1.0 + 0.013 * (k + 1)) + 37.0 for k, e in enumerate(case["E"])]
        dip2 = dip[::-1].copy() * 1.25 if N > 1 else dip * 0.5
        J2 = numpy.array(case["J"]) * -0.75
        with ctx.lib("Aggregate rebuild after the molecules changed (" + route + ")"):
            for k in range(N):
                mk = agg.monomers[k]
                how = route if route != "mixed" else ["set_energy", "elenergies-assign"][k % 2]
                if how == "set_energy":
                    with qr.energy_units("1/cm"):
                        mk.set_energy(1, E2[k])
                else:
                    mk.elenergies = numpy.array([0.0, U.e_to_int(E2[k], "1/cm")])
                if (case["seed"] // 18 + k) % 2 == 0:
                    mk.set_dipole(0, 1, [float(x) for x in dip2[k]])
                else:
                    dm = numpy.array(mk.dmoments, dtype=float).copy()       # the dipole array replaced as a whole
                    dm[0, 1, :] = dip2[k]
                    dm[1, 0, :] = dip2[k]
                    mk.dmoments = dm
            with qr.energy_units("1/cm"):
                for a in range(N):
                    for b_ in range(a + 1, N):
                        agg.set_resonance_coupling(a, b_, float(J2[a, b_]))
            agg.rebuild(mult=case["mult"])
            H4 = numpy.array(agg.get_Hamiltonian().data, dtype=float)
            D4 = numpy.array(agg.get_TransitionDipoleMoment().data, dtype=float)
            sigs4 = [tuple(i for i, x in enumerate(s_) if x) for s_ in agg.elsigs]
        ctx.require("band-order", sigs4 == sigs, dict(det, what="state order changed by rebuild"))
        st4, Href4, Dref4 = frenkel_model([U.e_to_int(e, "1/cm") for e in E2], J2 * U.E_FAC["1/cm"], dip2, mult)
        ctx.check("hamiltonian==frenkel", float(numpy.max(numpy.abs(H4 - Href4[numpy.ix_(idx, idx)]))), tolH * 1.2,
                  dict(det, what="rebuilt after the molecules were changed", route=route))
        ctx.check("dipole==frenkel", float(numpy.max(numpy.abs(D4 - Dref4[numpy.ix_(idx, idx)]))), 1e-12 * float(numpy.max(numpy.abs(dip2))),
                  dict(det, what="rebuilt after the molecules were changed", route=route))
        # --- a copy of the built aggregate (deepcopy, or save-and-load copy) whose molecules are changed and which is rebuilt: it follows its
        #     OWN molecules; the original is not affected
        dip3 = dip2 * -0.6 + 0.21
        E3 = [e + 55.0 * (k + 1) for k, e in enumerate(E2)]
        how_copy = ["deepcopy", "scopy"][(case["seed"] // 36) % 2]
        with ctx.lib("copy of a built aggregate, changed and rebuilt (" + how_copy + ")"):
            agc = agg.deepcopy() if how_copy == "deepcopy" else agg.scopy()
            for k in range(N):
                with qr.energy_units("1/cm"):
                    agc.monomers[k].set_energy(1, E3[k])
                agc.monomers[k].set_dipole(0, 1, [float(x) for x in dip3[k]])
            agc.rebuild(mult=case["mult"])
            H5 = numpy.array(agc.get_Hamiltonian().data, dtype=float)
            D5 = numpy.array(agc.get_TransitionDipoleMoment().data, dtype=float)
            sigs5 = [tuple(i for i, x in enumerate(s_) if x) for s_ in agc.elsigs]
            H4b = numpy.array(agg.get_Hamiltonian().data, dtype=float)
            D4b = numpy.array(agg.get_TransitionDipoleMoment().data, dtype=float)
        ctx.require("band-order", sigs5 == sigs, dict(det, what="state order of the copy"))
        st5, Href5, Dref5 = frenkel_model([U.e_to_int(e, "1/cm") for e in E3], J2 * U.E_FAC["1/cm"], dip3, mult)
        ctx.check("hamiltonian==frenkel", float(numpy.max(numpy.abs(H5 - Href5[numpy.ix_(idx, idx)]))), tolH * 1.3, dict(det, what="copy of a built aggregate, changed and rebuilt", copy=how_copy))
        ctx.check("dipole==frenkel", float(numpy.max(numpy.abs(D5 - Dref5[numpy.ix_(idx, idx)]))), 1e-12 * float(numpy.max(numpy.abs(dip3))),
                  dict(det, what="copy of a built aggregate, changed and rebuilt", copy=how_copy))
        ctx.check("hamiltonian==frenkel", float(numpy.max(numpy.abs(H4b - H4))), 0.0, dict(det, what="original aggregate after its copy was changed"))
        ctx.check("dipole==frenkel", float(numpy.max(numpy.abs(D4b - D4))), 0.0, dict(det, what="original aggregate after its copy was changed"))
        nzJ = bool(numpy.any(Jint != 0))
        movable = mult == 1 or any(True for a in states for b in states if len(a) == 2 and len(b) == 2 and len(set(a) & set(b)) == 1 and
                                   Jint[next(iter(set(a) - set(b))), next(iter(set(b) - set(a)))] != 0)
        ctx.key(("frenkel", N, mult, case["unit"], case["build_ctx"], tuple((numpy.array(case["J"]) != 0).ravel().tolist()), tuple(case["E"])))
        ctx.nontrivial(N >= 2 and nzJ and movable)
        return

    # ------------------------------------------------------- dipole-dipole
    import contextlib
    N = case["N"]
    lf = U.L_FAC[case["lunit"]]
    with ctx.lib("set_coupling_by_dipole_dipole"):
        mols = []
        for k in range(N):
            m = qr.Molecule([0.0, 1.0 + 0.01 * k])
            m.set_dipole(0, 1, [float(x) for x in case["dip"][k]])
            # Molecule.position is a plain attribute in Angstrom (not units managed)
            pt = case.get("ptype", "float-array")
            pk = case["pos"][k]
            if pt == "float-array":
                m.position = numpy.array([float(x) for x in pk])
            elif pt == "int-array":
                m.position = numpy.array([int(x) for x in pk])
            elif pt == "float-tuple":
                m.position = tuple(float(x) for x in pk)
            elif pt == "float-list":
                m.position = [float(x) for x in pk]
            else:
                m.position = list(pk)          # ints, or ints and floats mixed between molecules
            mols.append(m)
        agg = qr.Aggregate(molecules=mols)
        cm = contextlib.nullcontext() if case["ectx"] == "none" else qr.energy_units(case["ectx"])
        with cm:
            agg.set_coupling_by_dipole_dipole(epsr=case["epsr"])
        rc = numpy.array(agg.resonance_coupling, dtype=float)
        # positions as stored (internal units)
        stored = numpy.array([numpy.array(m.position, dtype=float) for m in mols])
    det = {"N": N, "kind": case["kind"], "epsr": case["epsr"], "lunit": case["lunit"], "ectx": case["ectx"], "positions_given_as": case.get("ptype", "float-array")}
    nz = False
    for a in range(N):
        for b in range(a + 1, N):
            if float(numpy.linalg.norm(numpy.array(case["pos"][a], dtype=float) - numpy.array(case["pos"][b], dtype=float))) == 0.0:
                # two transitions of one pigment modelled as two molecules at one place: the point-dipole formula says nothing about this
                # pair (the library leaves it uncoupled); every other pair is still to follow the formula
                ctx.event("coincident_pairs_skipped")
                continue
            ref = U.dipole_dipole_int(case["dip"][a], case["dip"][b], case["pos"][a], case["pos"][b], case["epsr"])
            big = abs(U.dipole_dipole_int(numpy.abs(case["dip"][a]), numpy.abs(case["dip"][b]), case["pos"][a], case["pos"][b], case["epsr"])) + abs(ref)
            d1, d2 = numpy.linalg.norm(case["dip"][a]), numpy.linalg.norm(case["dip"][b])
            Rn = numpy.linalg.norm(numpy.array(case["pos"][a]) - numpy.array(case["pos"][b]))
            mag = d1 * d2 * U.DEBYE ** 2 / (4 * math.pi * 8.8541878128e-12 * case["epsr"] * (Rn * 1e-10) ** 3) / 1.054571817e-34 * 1e-15
            ctx.check("dipole-dipole==SI", abs(rc[a, b] - ref), 1e-6 * mag + 1e-300, dict(det, pair=[a, b], got=float(rc[a, b]), want=float(ref)))
            ctx.check("dipole-dipole==SI", abs(rc[a, b] - rc[b, a]), 0.0, dict(det, what="symmetric"))
            if abs(ref) > 1e-3 * mag:
                nz = True
    ctx.check("dipole-dipole==SI", float(numpy.max(numpy.abs(numpy.diag(rc)))), 0.0, dict(det, what="diagonal"))
    ctx.key(("dd", N, case["kind"], case["lunit"], case["ectx"], case["epsr"]))
    ctx.nontrivial(nz)
