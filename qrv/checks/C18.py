"""C18  Saved objects and exported data load back to the same physical values.

Round trips of real objects through Saveable.save / load_parcel (and scopy,
savedir/loaddir) across a matrix of unit and basis contexts at saving and at
loading time, and of data arrays through DataSaveable / MatrixData
save_data / load_data in every supported format.  Observable data of the loaded
object are compared with those of the original, both read outside any context.
"""
import io
import os
import contextlib
import numpy
from qrv import build
from qrv.build import r3

LEVEL = "exploration"
RULE = ("object kinds {TimeAxis, FrequencyAxis, ValueAxis, DFunction, Operator, Hamiltonian (with RWA), DensityMatrix, ReducedDensityMatrix, "
        "TransitionDipoleMoment, Molecule (mode, bath), Aggregate (built, unbuilt), CorrelationFunction, SpectralDensity, AbsSpectrum, AbsSpectrumContainer, "
        "TwoDResponse, TwoDResponseContainer, relaxation tensor} x save context {none, 1/cm, eV, eigenbasis_of(H), eigenbasis_of(H) nested in 1/cm} x load context "
        "{same set}; data formats {dat, txt, npy, npz, mat} x {real, complex} x {1-D DFunction / AbsSpectrum, 2-D TwoDSpectrum, Operator / RateMatrix through "
        "MatrixData} x {with axis, without}. distinct = (kind, save context, load context) resp. (carrier, format, dtype, axis); non-trivial iff save and load "
        "context differ or a non-trivial context is involved (objects) resp. the array has more than one distinct value (data).")
RULE = RULE + " Round-6 workloads: directories are filled by several objects in turn with automatic tags, including objects loaded from the same directory."
RULE = RULE + " Round-7 workloads: a loaded object is modified in place and the directory loaded again."
ASSUMPTIONS = ["basis-managed objects are read (hence transformed) inside a basis context before they are saved there: the transformation is lazy",
               "text formats are compared to 1e-15 relative, binary formats exactly; a real axis stored next to complex data may come back as complex numbers with zero imaginary part",
               "objects saved inside a basis context after having been transformed there: see known finding"]
MIN_NONTRIVIAL = {"quick": 250, "thorough": 350}
REQUIRED_CLAUSES = ["object-roundtrip", "data-roundtrip"]
TIMEOUT = {"quick": 900, "thorough": 3400}

SAVE_CTX = ["none", "1/cm", "eV", "eig", "1/cm+eig"]
KINDS = ["TimeAxis", "FrequencyAxis", "ValueAxis", "DFunction", "DFunction-frequency", "Operator", "Hamiltonian", "DensityMatrix", "ReducedDensityMatrix", "TransitionDipoleMoment",
         "Molecule", "Aggregate-built", "Aggregate-unbuilt", "CorrelationFunction", "SpectralDensity", "AbsSpectrum", "AbsSpectrumContainer",
         "TwoDResponse", "TwoDResponseContainer", "RelaxationTensor", "scopy/savedir"]
BASIS_KINDS = {"Operator", "Hamiltonian", "DensityMatrix", "ReducedDensityMatrix", "TransitionDipoleMoment", "RelaxationTensor", "Aggregate-built"}


def gen_cases(tier, rng):
    cases = []
    reps = 1 if tier == "quick" else 4
    for r in range(reps):
        for k in KINDS:
            cases.append({"cls": "object:" + k, "kind": k, "seed": int(rng.integers(1 << 30)), "cost": 6 if "Aggregate" in k or k in ("AbsSpectrum", "AbsSpectrumContainer", "RelaxationTensor") else 2})
        for carrier in ("DFunction", "AbsSpectrum", "TwoDSpectrum", "Operator", "RateMatrix", "Evolution", "Evolution", "Evolution"):
            for shift in (range(4) if carrier == "AbsSpectrum" else range(1)):
                cases.append({"cls": "data:" + carrier, "carrier": carrier, "seed": int(rng.integers(1 << 30)), "unit_shift": shift, "cost": 1})
    return cases


def obs(qr, o, kind):
    """observable data of an object, read in the current (none) context"""
    if kind in ("TimeAxis", "FrequencyAxis", "ValueAxis"):
        return {"data": numpy.array(o.data), "start": float(o.start), "step": float(o.step), "length": int(o.length)}
    if kind in ("DFunction", "DFunction-frequency", "CorrelationFunction", "SpectralDensity", "AbsSpectrum"):
        ax = numpy.array(o.axis.data)
        d = {"data": numpy.array(o.data), "axis": ax}
        if kind in ("CorrelationFunction", "SpectralDensity"):
            d["lamb"] = float(o.lamb)
        # values between the grid points, as the object interpolates them (linear and spline mode)
        xs = [float(ax[j] + 0.37 * (ax[1] - ax[0])) for j in (1, len(ax) // 2, len(ax) - 3)]
        # (the mode used when none is named depends on whether splines were used before: not an observable of the stored data)
        for mode in ("linear", "spline"):
            try:
                d["at:" + mode] = numpy.array([o.at(x, approx=mode) for x in xs])
            except Exception as e:
                d["at:" + mode] = numpy.array([numpy.nan])
        return d
    if kind in ("Operator", "DensityMatrix", "ReducedDensityMatrix", "TransitionDipoleMoment"):
        return {"data": numpy.array(o.data)}
    if kind == "Hamiltonian":
        return {"data": numpy.array(o.data), "rwa": numpy.array(o.rwa_energies), "has_rwa": bool(o.has_rwa)}
    if kind == "Molecule":
        return {"energies": numpy.array([o.get_energy(i) for i in range(2)]), "dipole": numpy.array(o.get_dipole(0, 1)),
                "H": numpy.array(o.get_Hamiltonian().data), "mode_hr": float(o.get_Mode(0).get_HR(1)),
                "egcf": numpy.array(o.get_transition_environment((0, 1)).data)}
    if kind == "Aggregate-built":
        return {"H": numpy.array(o.get_Hamiltonian().data), "D": numpy.array(o.get_TransitionDipoleMoment().data), "J": numpy.array(o.resonance_coupling)}
    if kind == "Aggregate-unbuilt":
        o.build()
        return {"H": numpy.array(o.get_Hamiltonian().data), "J": numpy.array(o.resonance_coupling)}
    if kind == "AbsSpectrumContainer":
        out = {}
        for tag in sorted(o.spectra.keys(), key=str):
            out["s%s" % tag] = numpy.array(o.spectra[tag].data)
        return out
    if kind == "TwoDResponse":
        out = {}
        for flag in (qr.signal_TOTL, qr.signal_REPH, qr.signal_NONR):
            o.set_data_flag(flag)
            out[flag] = numpy.array(o.d__data)
        out["x"] = numpy.array(o.xaxis.data)
        return out
    if kind == "TwoDResponseContainer":
        out = {}
        for tag in sorted(o.spectra.keys(), key=str):
            sp = o.spectra[tag]
            sp.set_data_flag(qr.signal_TOTL)
            out["t%s" % tag] = numpy.array(sp.d__data)
        return out
    if kind == "RelaxationTensor":
        return {"data": numpy.array(o.data)}
    raise ValueError(kind)


def safe_obs(ctx, qr, o, kind, det, mech=None):
    """observables of a LOADED object; an object that cannot be observed the way the original can is a round-trip failure"""
    try:
        return obs(qr, o, kind)
    except Exception as e:
        ctx.require("object-roundtrip", False, dict(det, what="loaded object cannot be observed", type=type(o).__name__, exc=repr(e)[:200]), mechanism=mech)
        return None


def make_object(qr, kind, rng, work):
    """returns (object, basis operator or None)"""
    from quantarhei import qm
    t = qr.TimeAxis(0.0, 60, 1.0)
    n = 3
    Hd = numpy.diag([0.0, 1.9, 2.1]) + 0.05 * (numpy.ones((3, 3)) - numpy.eye(3))
    Hd[0, :] = Hd[:, 0] = 0.0
    Hop = qr.Hamiltonian(data=Hd.copy())
    if kind == "TimeAxis":
        return qr.TimeAxis(r3(rng.uniform(-5, 5)), int(rng.integers(3, 40)), r3(rng.uniform(0.1, 3.0))), None
    if kind == "FrequencyAxis":
        with qr.energy_units("1/cm"):
            return qr.FrequencyAxis(r3(rng.uniform(9000, 12000)), int(rng.integers(3, 40)), r3(rng.uniform(1.0, 30.0))), None
    if kind == "ValueAxis":
        return qr.ValueAxis(r3(rng.uniform(-5, 5)), int(rng.integers(3, 40)), r3(rng.uniform(0.1, 3.0))), None
    if kind == "DFunction":
        return qr.DFunction(t, rng.normal(size=60) + 1j * rng.normal(size=60)), None
    if kind == "DFunction-frequency":
        with qr.energy_units("1/cm"):
            wax = qr.FrequencyAxis(r3(rng.uniform(9000, 12000)), 50, r3(rng.uniform(5.0, 30.0)))
        f = qr.DFunction(wax, numpy.exp(-numpy.linspace(-2, 2, 50) ** 2) * (1.0 + (0.3j if rng.random() < 0.5 else 0.0)))
        f.at(float(wax.data[3] + 0.5 * (wax.data[1] - wax.data[0])), approx="spline")      # interpolation used before saving
        return f, None
    if kind == "Operator":
        return qm.Operator(data=rng.normal(size=(n, n))), Hop
    if kind == "Hamiltonian":
        h = qr.Hamiltonian(data=Hd.copy())
        h.set_rwa([0, 1])
        return h, h
    if kind in ("DensityMatrix", "ReducedDensityMatrix"):
        r = build.random_state(rng, n)
        return (qr.DensityMatrix if kind == "DensityMatrix" else qr.ReducedDensityMatrix)(data=r), Hop
    if kind == "TransitionDipoleMoment":
        d = rng.normal(size=(n, n, 3))
        return qr.TransitionDipoleMoment(data=(d + numpy.transpose(d, (1, 0, 2))) / 2), Hop
    desc = build.gen_system(rng, N=2, Nt=60, dt=1.0, shared_bath=False)
    if kind == "Molecule":
        with qr.energy_units("1/cm"):
            mo = qr.Molecule([0.0, 12000.0])
            md = qr.Mode(300.0)
        mo.add_Mode(md)
        md.set_nmax(0, 2)
        md.set_nmax(1, 2)
        md.set_HR(1, 0.4)
        mo.set_dipole(0, 1, [1.0, 0.5, -0.2])
        mo.set_transition_environment((0, 1), build.make_cf(t, desc["bath"][0]))
        return mo, None
    if kind in ("Aggregate-built", "Aggregate-unbuilt"):
        agg, t2, cfs = build.make_aggregate(desc, build=(kind == "Aggregate-built"))
        return agg, (agg.get_Hamiltonian() if kind == "Aggregate-built" else None)
    if kind == "CorrelationFunction":
        return build.make_cf(t, desc["bath"][0]), None
    if kind == "SpectralDensity":
        return build.make_cf(t, dict(desc["bath"][0], ftype="OverdampedBrownian"), cls="SpectralDensity"), None
    if kind in ("AbsSpectrum", "AbsSpectrumContainer"):
        agg, t2, cfs = build.make_aggregate(desc)
        calc = qr.AbsSpectrumCalculator(t2, agg)
        calc.bootstrap()
        sp = calc.calculate()
        if kind == "AbsSpectrum":
            return sp, None
        from quantarhei.spectroscopy.abscontainer import AbsSpectrumContainer
        cont = AbsSpectrumContainer()
        cont.set_spectrum(sp, tag=1)
        sp2 = calc.calculate()
        sp2.data = sp2.data * 0.5
        cont.set_spectrum(sp2, tag=2)
        return cont, None
    if kind in ("TwoDResponse", "TwoDResponseContainer"):
        from quantarhei.spectroscopy.twod2 import TwoDResponse

        def mk():
            tw = TwoDResponse()
            with qr.energy_units("1/cm"):
                tw.set_axis_1(qr.FrequencyAxis(11000.0, 5, 50.0))
                tw.set_axis_3(qr.FrequencyAxis(11000.0, 4, 60.0))
            for ty, tag in (("R1g", "a"), ("R2g", "b"), ("R3g", "c")):
                tw._add_data(rng.normal(size=(5, 4)) + 1j * rng.normal(size=(5, 4)), resolution="pathways", dtype=ty, tag=tag)
            tw.set_t2(30.0)
            return tw
        if kind == "TwoDResponse":
            return mk(), None
        from quantarhei.spectroscopy.twodcontainer import TwoDResponseContainer
        t2a = qr.TimeAxis(0.0, 3, 10.0)
        cont = TwoDResponseContainer(t2axis=t2a)
        cont.use_indexing_type(t2a)
        for k in range(3):
            tw = mk()
            tw.set_t2(float(t2a.data[k]))
            cont.set_spectrum(tw)
        return cont, None
    if kind == "RelaxationTensor":
        agg, t2, cfs = build.make_aggregate(desc)
        R, h = agg.get_RelaxationTensor(t2, relaxation_theory="stR")
        return R, h
    raise ValueError(kind)


@contextlib.contextmanager
def enter(qr, name, basis_op):
    with contextlib.ExitStack() as st:
        for part in name.split("+"):
            if part == "none":
                pass
            elif part == "eig":
                if basis_op is not None:
                    st.enter_context(qr.eigenbasis_of(basis_op))
            else:
                st.enter_context(qr.energy_units(part))
        yield


def compare(ctx, a, b, det, clause="object-roundtrip", mech=None, rtol=1e-12):
    ok_keys = set(a) == set(b)
    ctx.require(clause, ok_keys, dict(det, what="observable keys", a=sorted(a), b=sorted(b)), mechanism=mech)
    if not ok_keys:
        return False
    good = True
    for k in a:
        x, y = a[k], b[k]
        if isinstance(x, numpy.ndarray):
            if x.shape != numpy.shape(y):
                good = ctx.require(clause, False, dict(det, what="shape of " + k, a=list(x.shape), b=list(numpy.shape(y))), mechanism=mech) and good
                continue
            sc = max(float(numpy.max(numpy.abs(x))) if x.size else 0.0, 1e-300)
            good = ctx.check(clause, float(numpy.max(numpy.abs(x - y))) if x.size else 0.0, rtol * sc, dict(det, what=k, scale=sc), mechanism=mech) and good
        else:
            if isinstance(x, float):
                good = ctx.check(clause, abs(x - y), rtol * max(abs(x), 1e-300), dict(det, what=k), mechanism=mech) and good
            else:
                good = ctx.require(clause, x == y, dict(det, what=k, a=x, b=y), mechanism=mech) and good
    return good


def run_case(case, ctx):
    import quantarhei as qr
    from quantarhei.core.parcel import load_parcel, save_parcel
    rng = numpy.random.default_rng(case["seed"])
    work = os.path.join(os.environ.get("QRV_WORK", "/tmp"), "c18-%d-%d" % (os.getpid(), case["id"]))
    os.makedirs(work, exist_ok=True)
    out = io.StringIO()
    try:
        if case["cls"].startswith("object:"):
            run_object(case, ctx, qr, rng, work, out)
        else:
            run_data(case, ctx, qr, rng, work, out)
    finally:
        import shutil
        shutil.rmtree(work, ignore_errors=True)


def run_object(case, ctx, qr, rng, work, out):
    from quantarhei.core.parcel import load_parcel, save_parcel
    kind = case["kind"]
    if kind == "scopy/savedir":
        with contextlib.redirect_stdout(out):
            o, _b = make_object(qr, "DFunction", rng, work)
            ref = obs(qr, o, "DFunction")
            with ctx.lib("Saveable.scopy"):
                c = o.scopy()
            g = safe_obs(ctx, qr, c, "DFunction", {"via": "scopy"})
            if g is not None:
                compare(ctx, ref, g, {"kind": "DFunction", "via": "scopy"})
            d = os.path.join(work, "dir")
            objs = []
            for k in range(3):
                a, _b = make_object(qr, "TimeAxis", rng, work)
                objs.append(a)
                with ctx.lib("Saveable.savedir"):
                    a.savedir(d, tag=k + 1)
            with ctx.lib("Saveable.loaddir"):
                back = objs[0].loaddir(d)
            ctx.require("object-roundtrip", sorted(back.keys()) == [1, 2, 3], {"via": "savedir/loaddir", "tags": sorted(back.keys())})
            for k in range(3):
                if (k + 1) in back:
                    g = safe_obs(ctx, qr, back[k + 1], "TimeAxis", {"via": "savedir/loaddir"})
                    if g is not None:
                        compare(ctx, obs(qr, objs[k], "TimeAxis"), g, {"kind": "TimeAxis", "via": "savedir/loaddir", "tag": k + 1})
            # a directory filled over time by several objects in turn (automatic tags), including objects that were loaded from it:
            # every save adds one entry, and every entry stays what was saved under it
            d2 = os.path.join(work, "dir2")
            pool = [make_object(qr, "TimeAxis", rng, work)[0] for _ in range(3)]
            saved = []
            nsteps = int(rng.integers(4, 9))
            for step in range(nsteps):
                if saved and rng.random() < 0.3:
                    with ctx.lib("Saveable.loaddir (object to be saved again)"):
                        cur = pool[0].loaddir(d2)
                    who = cur[sorted(cur.keys())[int(rng.integers(len(cur)))]]
                else:
                    who = pool[int(rng.integers(len(pool)))]
                with ctx.lib("Saveable.savedir (automatic tag)"):
                    who.savedir(d2)
                saved.append(obs(qr, who, "TimeAxis"))
            with ctx.lib("Saveable.loaddir"):
                back2 = pool[-1].loaddir(d2)
            ctx.require("object-roundtrip", sorted(back2.keys()) == list(range(1, nsteps + 1)),
                        {"via": "savedir history with automatic tags", "tags": [int(x) for x in sorted(back2.keys())], "saves": nsteps})
            for k in range(nsteps):
                if (k + 1) in back2:
                    g = safe_obs(ctx, qr, back2[k + 1], "TimeAxis", {"via": "savedir history"})
                    if g is not None:
                        compare(ctx, saved[k], g, {"kind": "TimeAxis", "via": "savedir history with automatic tags", "tag": k + 1})
            # what a directory returns does not depend on what the program did with objects it loaded from it earlier
            if back2:
                k0 = sorted(back2.keys())[0]
                victim = back2[k0]
                try:
                    victim.data[:] = numpy.asarray(victim.data) + 5.0
                    victim.start = float(victim.start) + 5.0
                except Exception:
                    pass
                with ctx.lib("Saveable.loaddir (second time)"):
                    back3 = pool[0].loaddir(d2)
                for k in range(nsteps):
                    if (k + 1) in back3:
                        g = safe_obs(ctx, qr, back3[k + 1], "TimeAxis", {"via": "second loaddir"})
                        if g is not None:
                            compare(ctx, saved[k], g, {"kind": "TimeAxis", "via": "second loaddir after a loaded object was modified", "tag": k + 1})
            ctx.event("savedir_histories")
            # parcel helpers and file objects
            fn = os.path.join(work, "p.qrp")
            with ctx.lib("save_parcel/load_parcel"):
                save_parcel(o, fn, comment="x")
                c2 = load_parcel(fn)
                with open(os.path.join(work, "f.qrp"), "wb") as f:
                    o.save(f)
                with open(os.path.join(work, "f.qrp"), "rb") as f:
                    c3 = o.load(f)
            for via, cc in (("save_parcel", c2), ("file object", c3)):
                g = safe_obs(ctx, qr, cc, "DFunction", {"via": via})
                if g is not None:
                    compare(ctx, ref, g, {"kind": "DFunction", "via": via})
        ctx.sub(("scopy/savedir",), nontrivial=True)
        ctx.key(("scopy/savedir", case["seed"]))
        ctx.nontrivial(True)
        return
    with contextlib.redirect_stdout(out):
        with ctx.lib("construction of " + kind):
            o, bop = make_object(qr, kind, rng, work)
            ref = obs(qr, o, kind)
        managed = kind in BASIS_KINDS
        for sc in SAVE_CTX:
            if "eig" in sc and bop is None:
                continue
            for lc in SAVE_CTX:
                if "eig" in lc and bop is None:
                    continue
                fn = os.path.join(work, "x.qrp")
                det = {"kind": kind, "save_context": sc, "load_context": lc}
                mech = "saved-inside-basis-context" if ("eig" in sc and managed) else None
                try:
                    with ctx.lib("save in %s / load in %s [%s]" % (sc, lc, kind), mechanism=mech):
                        with enter(qr, sc, bop):
                            if "eig" in sc:
                                _ = obs(qr, o, kind) if kind != "Aggregate-unbuilt" else None      # touch: the transformation is lazy
                            o.save(fn)
                        with enter(qr, lc, bop):
                            o2 = load_parcel(fn)
                            if "eig" in lc and type(o2) is type(o):
                                _ = obs(qr, o2, kind) if kind != "Aggregate-unbuilt" else None
                    if type(o2) is not type(o):
                        ctx.require("object-roundtrip", False, dict(det, what="type of the loaded object", got=type(o2).__name__), mechanism=mech)
                        continue
                    with ctx.lib("reading the loaded object [%s]" % kind, mechanism=mech):
                        got = obs(qr, o2, kind)
                except Exception as e:
                    if type(e).__name__ == "LibRaised":
                        ctx.sub((kind, sc, lc), nontrivial=(sc != "none" or lc != "none"))
                        continue
                    raise
                compare(ctx, ref, got, det, mech=mech)
                if mech is None and "eig" not in lc:
                    # second generation: what was loaded is saved (in the other context) and loaded again
                    fn2 = os.path.join(work, "x2.qrp")
                    try:
                        with ctx.lib("saving the loaded object in %s / loading in %s [%s]" % (lc, sc, kind)):
                            with enter(qr, lc, bop):
                                o2.save(fn2)
                            with enter(qr, sc if "eig" not in sc else "none", bop):
                                o3 = load_parcel(fn2)
                        if type(o3) is type(o):
                            with ctx.lib("reading the second-generation object [%s]" % kind):
                                got3 = obs(qr, o3, kind)
                            compare(ctx, ref, got3, dict(det, generation=2))
                        else:
                            ctx.require("object-roundtrip", False, dict(det, generation=2, what="type of the loaded object", got=type(o3).__name__))
                    except Exception as e:
                        if type(e).__name__ != "LibRaised":
                            raise
                # the original must be unharmed as well
                compare(ctx, ref, obs(qr, o, kind) if kind != "Aggregate-unbuilt" else ref, dict(det, what2="original after save/load"), clause="original-unchanged")
                ctx.sub((kind, sc, lc), nontrivial=(sc != "none" or lc != "none"))
    ctx.key(("object", kind, case["seed"]))
    ctx.nontrivial(True)


def run_data(case, ctx, qr, rng, work, out):
    from quantarhei import qm
    carrier = case["carrier"]
    with contextlib.redirect_stdout(out):
        for cplx in (False, True):
            for ext in (".dat", ".txt", ".npy", ".npz", ".mat"):
                for with_axis in (False, True):
                    N = int(rng.integers(3, 12))
                    fn = os.path.join(work, "d" + ext)
                    det = {"carrier": carrier, "format": ext, "complex": cplx, "with_axis": with_axis}
                    tol = 1e-15 if ext in (".dat", ".txt") else 0.0
                    if carrier in ("DFunction", "AbsSpectrum"):
                        y = rng.normal(size=N) + (1j * rng.normal(size=N) if cplx else 0.0)
                        if carrier == "DFunction":
                            ax = qr.TimeAxis(r3(rng.uniform(0, 5)), N, r3(rng.uniform(0.2, 2.0)))
                            src = qr.DFunction(ax, y.copy())
                            ax2 = qr.TimeAxis(0.0, N, 1.0)
                            dst = qr.DFunction(ax2, numpy.zeros(N, dtype=y.dtype))
                        else:
                            if cplx:
                                continue
                            with qr.energy_units("1/cm"):
                                ax = qr.FrequencyAxis(11000.0, N, 25.0)
                                ax2 = qr.FrequencyAxis(0.0, N, 1.0)
                            src = qr.AbsSpectrum(axis=ax, data=y.real.copy())
                            dst = qr.AbsSpectrum(axis=ax2, data=numpy.zeros(N))
                        axd = numpy.array(ax.data)
                        # an export/import pair made inside one and the same units context is a round trip as well
                        unit = None if carrier == "DFunction" else [None, "1/cm", "eV", "THz"][(case.get("unit_shift", 0) + [".dat", ".txt", ".npy", ".npz", ".mat"].index(ext)) % 4]
                        det["units_context"] = unit
                        with ctx.lib("save_data/load_data %s %s" % (carrier, ext)):
                            if carrier == "AbsSpectrum":
                                # the spectrum's own save_data/load_data always carry the axis
                                if not with_axis:
                                    continue
                                for rnd in range(2):
                                    with (qr.energy_units(unit) if unit else contextlib.nullcontext()):
                                        src.save_data(fn)
                                        dst.load_data(fn)
                                    if rnd == 0 and rng.random() < 0.5:
                                        # second round: what was imported is exported again
                                        src = dst
                                        with qr.energy_units("1/cm"):
                                            ax3 = qr.FrequencyAxis(0.0, N, 1.0)
                                        dst = qr.AbsSpectrum(axis=ax3, data=numpy.zeros(N))
                                        det["rounds"] = 2
                                    else:
                                        break
                            else:
                                src.save_data(fn, with_axis=(src.axis if with_axis else None))
                                dst.load_data(fn, with_axis=(dst.axis if with_axis else None))
                        got = numpy.array(dst.data)
                        ok = got.shape == y.shape
                        ctx.require("data-roundtrip", ok, dict(det, what="shape", got=list(got.shape), want=list(y.shape)))
                        if ok:
                            ctx.check("data-roundtrip", float(numpy.max(numpy.abs(got - (y if carrier == "DFunction" else y.real)))), tol * float(numpy.max(numpy.abs(y))), det)
                        if with_axis:
                            ga = numpy.array(dst.axis.data)
                            ok = ga.shape == axd.shape
                            ctx.require("data-roundtrip", ok, dict(det, what="axis shape", got=list(ga.shape)))
                            if ok:
                                ctx.check("data-roundtrip", float(numpy.max(numpy.abs(ga - axd))), (tol + 1e-15 + (4e-16 if unit else 0.0)) * float(numpy.max(numpy.abs(axd))) * det.get("rounds", 1),
                                          dict(det, what="axis values"))
                            ctx.sub(("export", carrier, ext, unit), nontrivial=True)
                    elif carrier == "TwoDSpectrum":
                        from quantarhei.spectroscopy.twod import TwoDSpectrum
                        if with_axis:
                            continue
                        M = int(rng.integers(2, 7))
                        y = rng.normal(size=(N, M)) + (1j * rng.normal(size=(N, M)) if cplx else 0.0)
                        src = TwoDSpectrum()
                        dst = TwoDSpectrum()
                        for sp_ in (src, dst):
                            sp_.set_axis_1(qr.FrequencyAxis(0.0, N, 1.0))
                            sp_.set_axis_3(qr.FrequencyAxis(0.0, M, 1.0))
                        src.set_data(y.copy())
                        with ctx.lib("save_data/load_data TwoDSpectrum " + ext):
                            src.save_data(fn)
                            dst.load_data(fn)
                        got = numpy.array(dst.data)
                        ok = got.shape == y.shape
                        ctx.require("data-roundtrip", ok, dict(det, what="shape", got=list(got.shape), want=list(y.shape)))
                        if ok:
                            ctx.check("data-roundtrip", float(numpy.max(numpy.abs(got - y))), tol * float(numpy.max(numpy.abs(y))), det)
                    else:
                        if ext == ".mat" or with_axis:
                            continue
                        n = int(rng.integers(2, 6))
                        y = rng.normal(size=(n, n)) + (1j * rng.normal(size=(n, n)) if (cplx and carrier == "Operator") else 0.0)
                        if carrier == "Evolution":
                            # a trajectory of Hermitian matrices with complex coherences (the text formats store one triangle)
                            if not cplx:
                                continue
                            from quantarhei.qm.propagators.dmevolution import ReducedDensityMatrixEvolution
                            n = 2 + (int(case["seed"]) + [".dat", ".txt", ".npy", ".npz", ".mat"].index(ext)) % 5
                            Ntp = int(rng.integers(3, 9))
                            tax = qr.TimeAxis(0.0, Ntp, 1.5)
                            a_ = rng.normal(size=(Ntp, n, n)) + 1j * rng.normal(size=(Ntp, n, n))
                            y = (a_ + numpy.conj(numpy.transpose(a_, (0, 2, 1)))) / 2
                            r0_ = qr.ReducedDensityMatrix(data=y[0].copy())
                            src = ReducedDensityMatrixEvolution(tax, r0_)
                            src.data[:, :, :] = y
                            dst = ReducedDensityMatrixEvolution(tax, qr.ReducedDensityMatrix(data=numpy.eye(n, dtype=complex) / n))
                        elif carrier == "Operator":
                            src = qm.Operator(data=y.copy())
                            dst = qm.Operator(data=numpy.zeros((n, n), dtype=y.dtype))
                        else:
                            if cplx:
                                continue
                            src = qm.RateMatrix(data=y.real.copy())
                            dst = qm.RateMatrix(dim=n)
                        with ctx.lib("MatrixData.save_data/load_data %s %s" % (carrier, ext)):
                            src.save_data(fn)
                            dst.load_data(fn)
                        got = numpy.array(dst.data)
                        ok = got.shape == y.shape
                        ctx.require("data-roundtrip", ok, dict(det, what="shape", got=list(got.shape)))
                        if ok:
                            ctx.check("data-roundtrip", float(numpy.max(numpy.abs(got - y))), tol * float(numpy.max(numpy.abs(y))), det)
                    ctx.sub((carrier, ext, cplx, with_axis), nontrivial=True)
    ctx.key(("data", carrier, case["seed"]))
    ctx.nontrivial(True)
