"""C01  Relaxation generators preserve trace and Hermiticity.

For every generated (system, theory, options) the real tensor is built through
OpenSystem.get_RelaxationTensor or a direct constructor and observed through
its public surface only: `.data` (all time indices), and `apply()` on the N^2
matrix units (which also works for operator-form tensors), outside any basis
context, inside eigenbasis_of(H) and inside eigenbasis_of(random self-adjoint
operator).  The two identities are evaluated on every observation.  The
secularisation clause compares a secularised tensor element-wise with the
non-secular one built from the same inputs, in the basis of secularisation.
"""
import io
import contextlib
import numpy
from qrv import tensors
from qrv.build import r3

LEVEL = "exploration"
RULE = ("aggregates of 2-4 sites (thorough 2-5; time-dependent tensors 2-3 resp. 2-4), energies 10000-16000 1/cm with spreads 0-600, couplings 5-300 1/cm incl. "
        "exactly zero and exactly degenerate sites, per-site or shared overdamped baths (quantum / high-temperature), lambda 5-150 1/cm, tau 20-200 fs, T 60-400 K; "
        "24 (theory, option) configurations: standard/TD Redfield (tensor, operator form, secular, cut-off time), Foerster and TD Foerster, combined "
        "Redfield-Foerster (cut-off below/between/above the couplings, secular, TD), Lindblad forms with 1-3 random real operators (projector, ladder, dense, "
        "diagonal) incl. zero rates, electronic Lindblad forms on vibronic aggregates, through OpenSystem and through direct constructors. distinct = (configuration, N, rounded parameters); non-trivial iff "
        "the tensor has a non-zero population-transfer element and, for non-secular theories, a non-zero element outside the secular pattern.")
RULE = RULE + " Round-6 workloads: tensor-form objects are also read in the eigenbasis of a self-adjoint operator with complex elements (unitary transformation) and compared with the site-basis tensor transformed by the context's matrix."
RULE = RULE + " Round-7 workloads: time-dependent five-index tensors (TD Foerster, TD combined) are secularised by the harness with both values of the legacy option."
ASSUMPTIONS = ["modified-Redfield and non-equilibrium Foerster classes are not in the statement's list (and do not import cleanly per BASELINE): not monitored",
               "identities are evaluated with tolerance 1e-13 * max|R| * N^2 (rounding of the basis transformations)"]
MIN_NONTRIVIAL = {"quick": 60, "thorough": 400}
REQUIRED_CLAUSES = ["trace-identity", "hermiticity-identity", "secular-elements-kept", "secular-others-zero"]
TIMEOUT = {"quick": 900, "thorough": 3400}


def gen_cases(tier, rng):
    cases = []
    reps = 5 if tier == "quick" else 30
    for label in tensors.ALL_LABELS:
        for r in range(reps):
            c = tensors.gen_case(rng, label, tier)
            N = c["sys"]["N"]
            c["cls"] = label
            c["cost"] = (N + 1) ** 4 / 100.0 * (c["sys"]["Nt"] / 50.0 if "TD" in label else 3.0)
            cases.append(c)
    # symmetric rings (exactly degenerate exciton levels, mixing eigenvectors) for every secular configuration, in every run
    for label in [l for l in tensors.ALL_LABELS if "sec" in l]:
        for _try in range(50):
            c = tensors.gen_case(rng, label, "thorough", nmax=3)
            if c["sys"]["N"] == 3:
                break
        j0 = r3(rng.uniform(40.0, 160.0))
        c["sys"]["E"] = [c["sys"]["E"][0]] * 3
        c["sys"]["J"] = [[(0.0 if a == b else float(j0)) for b in range(3)] for a in range(3)]
        if "jcut_cm" in c:
            c["jcut_cm"] = r3(0.5 * j0)
        c["cls"] = label
        c["cost"] = 4 ** 4 / 100.0 * (c["sys"]["Nt"] / 50.0 if "TD" in label else 3.0)
        cases.append(c)
    return cases


def identities(ctx, T, det, where):
    """T: (...,N,N,N,N) array"""
    T = numpy.asarray(T)
    N = T.shape[-1]
    scale = float(numpy.max(numpy.abs(T)))
    tol = 1e-13 * max(scale, 1e-300) * N * N
    tr = numpy.einsum("...aacd->...cd", T)
    he = numpy.conj(T) - numpy.swapaxes(numpy.swapaxes(T, -4, -3), -2, -1)
    d = dict(det, observed=where, scale=scale)
    r1 = float(numpy.max(numpy.abs(tr)))
    r2 = float(numpy.max(numpy.abs(he)))
    if T.ndim == 5:
        d1 = dict(d, worst_time_index=int(numpy.argmax(numpy.max(numpy.abs(tr), axis=(1, 2)))))
        d2 = dict(d, worst_time_index=int(numpy.argmax(numpy.max(numpy.abs(he), axis=(1, 2, 3, 4)))))
    else:
        d1 = d2 = d
    ctx.check("trace-identity", r1, tol, d1)
    ctx.check("hermiticity-identity", r2, tol, d2)
    ctx.require("finite", bool(numpy.all(numpy.isfinite(T))), d)
    return scale


def secular_pattern(N):
    m = numpy.zeros((N, N, N, N), dtype=bool)
    for a in range(N):
        for b in range(N):
            m[a, a, b, b] = True
            m[a, b, a, b] = True
    return m


def run_case(case, ctx):
    import quantarhei as qr
    label = case["label"]
    rng = numpy.random.default_rng(case["seed"])
    with ctx.lib("tensor construction [%s]" % label, mechanism=None):
        B = tensors.build_case(case)
    R = B["R"]
    hamR = B["hamR"]
    dim = hamR.dim
    det = {"config": label, "N": case["sys"]["N"], "route": B["route"]}
    td = bool(getattr(R, "is_time_dependent", False)) or (not getattr(R, "as_operators", False) and numpy.ndim(R.data) == 5)
    ops_form = bool(getattr(R, "as_operators", False))
    sao = qr.qm.SelfAdjointOperator(data=tensors.random_sao(rng, dim))
    # the basis in which the library secularises / in which "eigenstate" elements are meant
    if "cRF" in label:
        # get_RelaxationTensor builds (and secularises) the combined tensor in the eigenbasis of the
        # Hamiltonian with the cut-off *subtracted* from the strong couplings
        hsec = qr.Hamiltonian(data=numpy.array(B["ham"].data, dtype=float).copy())
        hsec.subtract_cutoff_coupling(case["jcut_cm"] * tensors.CM2INT)
        hsec._has_remainder_coupling = False
    elif label == "Lindblad-open-sec":
        hsec = None        # secularised where it was built: in the site basis
    else:
        hsec = hamR
    contexts = [("outside", contextlib.nullcontext),
                ("eigenbasis_of(H)", (lambda: qr.eigenbasis_of(hsec)) if hsec is not None else contextlib.nullcontext),
                ("eigenbasis_of(random operator)", lambda: qr.eigenbasis_of(sao))]
    ref = None
    ref_sec = None
    for name, cm in contexts:
        with ctx.lib("reading the tensor " + name, mechanism=None):
            with cm():
                Td = None if ops_form else numpy.array(R.data, copy=True)
                Ta = None if td else tensors.tensor_by_apply(R, dim)
        if Td is not None:
            sc = identities(ctx, Td, det, ".data " + name)
            if name == "outside":
                ref = Td
            if name == "eigenbasis_of(H)":
                ref_sec = Td
        if Ta is not None:
            identities(ctx, Ta, det, "apply() on matrix units " + name)
            if Td is not None:
                ctx.check("apply==data", float(numpy.max(numpy.abs(Ta - Td))), 1e-13 * max(float(numpy.max(numpy.abs(Td))), 1e-300) * dim * dim,
                          dict(det, observed=name))
            if ref is None and name == "outside":
                ref = Ta
            if ref_sec is None and name == "eigenbasis_of(H)":
                ref_sec = Ta
    # a basis reached by a unitary (not orthogonal) matrix: the eigenbasis of a self-adjoint operator with complex elements.
    # (tensor-form only: the operator form keeps K^+ as K^T and is documented for real operators)
    if not ops_form:
        from quantarhei import Manager
        Cd = tensors.random_sao(rng, dim).astype(complex)
        Bi = rng.normal(size=(dim - 1, dim - 1))
        Cd[1:, 1:] += 1j * (Bi - Bi.T) / 2
        saoc = qr.qm.SelfAdjointOperator(data=Cd)
        with ctx.lib("reading the tensor eigenbasis_of(complex self-adjoint operator)", mechanism=None):
            with qr.eigenbasis_of(saoc):
                Su = numpy.array(Manager().basis_transformations[-1])
                Tu = numpy.array(R.data, copy=True)
        identities(ctx, Tu, det, ".data eigenbasis_of(complex self-adjoint operator)")
        want = numpy.einsum("ia,jb,...ijkl,kc,ld->...abcd", Su.conj(), Su, ref, Su, Su.conj(), optimize=True)
        ctx.check("apply==data", float(numpy.max(numpy.abs(Tu - want))), 1e-12 * max(float(numpy.max(numpy.abs(ref))), 1e-300) * dim * dim,
                  dict(det, observed=".data in a unitary basis vs the site-basis tensor transformed by the context's matrix"))
    # read outside again: the contexts must have restored the representation (cheap cross-check, C04's business otherwise)
    if not ops_form:
        ctx.check("restored-after-contexts", float(numpy.max(numpy.abs(numpy.array(R.data) - ref))),
                  1e-12 * max(float(numpy.max(numpy.abs(ref))), 1e-300) * dim * dim, det)

    # operator form: conversion gives a tensor with the same identities
    if ops_form:
        with ctx.lib("convert_2_tensor", mechanism=None):
            with contextlib.redirect_stdout(io.StringIO()):
                R.convert_2_tensor()
            Tc = numpy.array(R.data, copy=True)
        identities(ctx, Tc, det, ".data after convert_2_tensor")
        if ref is None:
            ref = Tc
        if not td:
            ctx.check("apply==data", float(numpy.max(numpy.abs(Tc - ref))), 1e-13 * max(float(numpy.max(numpy.abs(Tc))), 1e-300) * dim * dim,
                      dict(det, observed="converted tensor vs apply() before conversion"))

    # ---------------------------------------------------------- secular part
    pat = secular_pattern(dim)
    Tfull = ref_sec
    is_sec_cfg = "sec" in label
    w = numpy.linalg.eigvalsh(numpy.array((hsec if hsec is not None else hamR).data, dtype=float))
    degenerate = dim >= 2 and float(numpy.min(numpy.diff(w))) < 1e-9 * max(1.0, float(numpy.max(numpy.abs(w))))
    if is_sec_cfg and degenerate:
        # degenerate levels: the twin comparison is not well defined (eigenvectors are not unique between two constructions), but the pattern is
        # index based - everything outside R[a,a,b,b], R[a,b,a,b] is zero in the basis the library secularised in
        scd = max(float(numpy.max(numpy.abs(Tfull))), 1e-300)
        ctx.check("secular-others-zero", float(numpy.max(numpy.abs(Tfull[..., ~pat]))) if (~pat).any() else 0.0, 1e-13 * scd * dim * dim, dict(det, degenerate_levels=True))
        nontriv_ns = None
    elif is_sec_cfg and not degenerate:
        # the same inputs without secularisation
        c2 = dict(case)
        c2["label"] = label.replace("-sec", "")
        with ctx.lib("non-secular twin construction", mechanism=None):
            B2 = tensors.build_case(c2)
            R2 = B2["R"]
            with (qr.eigenbasis_of(hsec) if hsec is not None else contextlib.nullcontext()):
                if getattr(R2, "as_operators", False):
                    T2 = tensors.tensor_by_apply(R2, dim)
                else:
                    T2 = numpy.array(R2.data, copy=True)
        Ts = Tfull
        sc = max(float(numpy.max(numpy.abs(T2))), 1e-300)
        kept = numpy.abs(Ts - T2)[..., pat]
        ctx.check("secular-elements-kept", float(numpy.max(kept)), 1e-12 * sc * dim * dim, dict(det, what="R[a,a,b,b], R[a,b,a,b] vs non-secular twin"))
        ctx.check("secular-others-zero", float(numpy.max(numpy.abs(Ts[..., ~pat]))) if (~pat).any() else 0.0, 1e-13 * sc * dim * dim, det)
        nontriv_ns = float(numpy.max(numpy.abs(T2[..., ~pat]))) > 1e-6 * sc if (~pat).any() else False
    elif not is_sec_cfg and not ops_form and not degenerate and label in ("stR", "direct-Redfield", "Lindblad-tensor", "direct-TDRedfield", "cRF", "cRF-TD", "stF-TD", "direct-TDFoerster"):
        # secularise a tensor-form object ourselves, both code paths
        legacy = bool(rng.random() < 0.5)
        # the tensor may or may not have been looked at inside the context before it is secularised there
        read_first = bool(rng.random() < 0.5)
        from quantarhei import Manager
        with ctx.lib("RelaxationTensor.secularize(legacy=%s)" % legacy, mechanism=None):
            T_out = numpy.array(R.data, copy=True)
            with qr.eigenbasis_of(hsec):
                S = numpy.array(Manager().basis_transformations[-1], dtype=float)
                if read_first:
                    before = numpy.array(R.data, copy=True)
                if label == "direct-TDRedfield":
                    R.secularize()
                else:
                    R.secularize(legacy=legacy)
                after = numpy.array(R.data, copy=True)
        if not read_first:
            before = numpy.einsum("ia,jb,...ijkl,kc,ld->...abcd", S, S, T_out, S, S, optimize=True)
        sc = max(float(numpy.max(numpy.abs(before))), 1e-300)
        tol0 = 0.0 if read_first else 1e-12 * sc * dim * dim
        ctx.check("secular-elements-kept", float(numpy.max(numpy.abs(after - before)[..., pat])), tol0, dict(det, legacy=legacy, read_before_secularize=read_first))
        ctx.check("secular-others-zero", float(numpy.max(numpy.abs(after[..., ~pat]))), 0.0, dict(det, legacy=legacy, read_before_secularize=read_first))
        ctx.sub(("self-secularize", label, legacy, read_first), nontrivial=True)
        identities(ctx, after, det, ".data after secularize() inside eigenbasis_of(H)")
        with ctx.lib("reading the secularised tensor outside", mechanism=None):
            identities(ctx, numpy.array(R.data), det, ".data after secularize(), read outside")
        nontriv_ns = float(numpy.max(numpy.abs(before[..., ~pat]))) > 1e-6 * sc
    else:
        nontriv_ns = None

    if ops_form and td:
        with ctx.lib("reading the converted TD tensor inside eigenbasis_of(H)", mechanism=None):
            with (qr.eigenbasis_of(hsec) if hsec is not None else contextlib.nullcontext()):
                ref_sec = numpy.array(R.data, copy=True)
        identities(ctx, ref_sec, det, ".data after convert_2_tensor, inside eigenbasis_of(H)")
    Tn = ref_sec if ref_sec is not None else ref
    sc = max(float(numpy.max(numpy.abs(Tn))), 1e-300)
    poptr = 0.0
    for a in range(dim):
        for b in range(dim):
            if a != b:
                poptr = max(poptr, float(numpy.max(numpy.abs(Tn[..., a, a, b, b]))))
    nonsec = float(numpy.max(numpy.abs(Tn[..., ~pat]))) if (~pat).any() else 0.0
    secular_theory = ("Foerster" in label and "cRF" not in label and "Redfield" not in label) or label.startswith("stF") or "sec" in label
    nt = poptr > 1e-9 * sc and (secular_theory or nonsec > 1e-9 * sc or (nontriv_ns is True))
    ctx.note("max_population_transfer_element", poptr)
    ctx.note("max_nonsecular_element", nonsec)
    ctx.key((label, case["sys"]["N"], tuple(case["sys"]["E"]), case["sys"]["Nt"]))
    ctx.nontrivial(nt)
