"""C02  Propagated density matrices stay valid states and follow the generator.

Stored trajectories of the real ReducedDensityMatrixPropagator and
StateVectorPropagator are compared with the exact exponential of an
independently assembled Liouvillian (scipy expm) under an a-priori Taylor
truncation bound; trace, Hermiticity and (Lindblad) positivity are checked at
every stored time.
"""
import io
import math
import contextlib
import numpy
from qrv import build, tensors
from qrv.build import r3
from qrv.oracles import gksl

LEVEL = "exploration"
RULE = ("many short runs (5-40 stored points): dimensions 2-6, ||L|| dt in [0.02, 0.6], methods short-exp-2/4/6, refinement 1-8, operator and tensor form, "
        "with/without RWA blocks, initial states mixed/pure/population-only, Hamiltonians with degenerate levels; Lindblad forms with 1-3 random real operators; "
        "Redfield/Foerster/combined tensors from C01's generator (trace and Hermiticity; exponential agreement for the time-independent ones); Lorentzian and "
        "Gaussian pure dephasing (symmetric rate matrices; trace, Hermiticity and agreement with the exactly integrated splitting scheme); closed systems: density-matrix and state-vector propagators, "
        "laboratory vs rotating frame with two or three rotating-wave blocks (non-equidistant block means), every fourth Hamiltonian complex Hermitian. distinct = (class, dim, method, Nref, form, RWA, dephasing type, state class, rounded generator); non-trivial iff the "
        "state moves by more than 100x the bound over the run (so that a wrong order or a wrong generator is visible).")
RULE = RULE + " Round-6 workloads: the same StateVector object is propagated twice and the caller's storage inspected afterwards."
RULE = RULE + " Round-7 workloads: dephasing rates of the PureDephasing object are changed (in place / assigned) between two runs of the same propagator."
ASSUMPTIONS = ["the bound is ||rho_n - exact|| <= m M^2 loc (1+loc)^m ||rho_0||, loc = x^(L+1)/(L+1)! e^x, x = ||L||_2 dt, M = max_k ||expm(L dt)^k||_2 computed "
               "by the oracle; a better integrator than the Taylor polynomial would pass as well",
               "with a PureDephasing object the propagator multiplies by the exact decay factor after every refined sub-step (operator splitting): the reference for those runs is the same splitting with the exact sub-step exponential of the GKSL generator, so only the truncation of the expansion separates the two; the splitting error itself (first order in dt/Nref) is not judged",
               "propagation with external fields is outside the statement"]
MIN_NONTRIVIAL = {"quick": 100, "thorough": 700}
REQUIRED_CLAUSES = ["trace", "hermitian", "positive", "lindblad==expm", "lindblad+dephasing==split-expm", "closed:norm-purity-energy", "closed:psi-vs-rho", "closed:rwa==lab", "tensor-generator==expm"]
TIMEOUT = {"quick": 900, "thorough": 3400}
EPS = numpy.finfo(float).eps
METHODS = {"short-exp-2": 2, "short-exp-4": 4, "short-exp-6": 6, "short-exp": 4}


def rand_h(rng, dim, scale, degenerate=False, with_ground=True):
    A = rng.normal(size=(dim, dim))
    H = (A + A.T) / 2
    if with_ground:
        H[0, :] = 0.0
        H[:, 0] = 0.0
    if degenerate and dim >= 3:
        H[2, 2] = H[1, 1]
    H = H / max(numpy.linalg.norm(H, 2), 1e-12) * scale
    return numpy.vectorize(lambda v: float("%.6g" % v))(H)


def gen_cases(tier, rng):
    cases = []
    n = 90 if tier == "quick" else 600
    for i in range(n):
        dim = int(rng.integers(2, 7))
        x = 10 ** rng.uniform(math.log10(0.02), math.log10(0.6))
        method = str(rng.choice(["short-exp-2", "short-exp-4", "short-exp-6", "short-exp"]))
        nref = int(rng.choice([1, 1, 2, 3, 5, 8]))
        Nt = int(rng.integers(5, 41))
        dt = r3(rng.uniform(0.5, 5.0))
        rwa = bool(rng.random() < 0.4)
        hs = x / (dt / nref) / 2.0      # ||-i[H,.]|| <= 2||H||
        offs = r3(rng.uniform(2.0, 20.0)) * hs if rwa else 0.0
        H = rand_h(rng, dim, hs * 0.7, degenerate=bool(rng.random() < 0.2))
        nops = int(rng.integers(1, 4))
        ops, rates = [], []
        for k in range(nops):
            kind = str(rng.choice(["projector", "ladder", "random", "diagonal"]))
            K = numpy.zeros((dim, dim))
            if kind == "projector":
                a, b = int(rng.integers(dim)), int(rng.integers(dim))
                K[a, b] = 1.0
            elif kind == "ladder":
                for a in range(dim - 1):
                    K[a, a + 1] = r3(rng.uniform(0.2, 1.0))
            elif kind == "diagonal":
                K = numpy.diag([r3(v) for v in rng.normal(size=dim)])
            else:
                K = numpy.vectorize(r3)(rng.normal(size=(dim, dim)))
            ops.append(K.tolist())
            nk = max(numpy.linalg.norm(K, 2) ** 2, 1e-12)
            rates.append(0.0 if rng.random() < 0.08 else r3(rng.uniform(0.05, 0.5) * hs / nk))
        cases.append({"cls": "lindblad", "dim": dim, "H": H.tolist(), "rwa": rwa, "rwa_split": int(rng.integers(1, dim)) if dim > 1 else 1, "offset": offs,
                      "ops": ops, "rates": rates, "as_operators": bool(rng.random() < 0.5), "method": method, "nref": nref, "Nt": Nt, "dt": dt,
                      "state": str(rng.choice(["mixed", "pure", "populations"])), "seed": int(rng.integers(1 << 30)),
                      "pdeph": (str(rng.choice(["Lorentzian", "Gaussian"])) if rng.random() < 0.2 else None), "cost": 1 + Nt * nref * METHODS[method] / 60.0})
    # every (form, dephasing type) with a refined step is present in every run
    k = 0
    for c in cases:
        if c["cls"] == "lindblad" and k < 8:
            c["as_operators"] = bool(k % 2)
            c["pdeph"] = ["Lorentzian", "Gaussian"][(k // 2) % 2]
            if c["nref"] == 1:
                c["nref"] = 2 + (k // 4)
                c["dt"] = r3(c["dt"] * c["nref"])
                c["cost"] = 1 + c["Nt"] * c["nref"] * METHODS[c["method"]] / 60.0
            k += 1
    m = 40 if tier == "quick" else 260
    for i in range(m):
        dim = int(rng.integers(2, 7))
        x = 10 ** rng.uniform(math.log10(0.02), math.log10(0.6))
        order = int(rng.choice([2, 4, 6]))
        nref = int(rng.choice([1, 2, 4]))
        dt = r3(rng.uniform(0.5, 5.0))
        hs = x / (dt / nref) / 2.0
        H = rand_h(rng, dim, hs, degenerate=bool(rng.random() < 0.2), with_ground=False)
        cases.append({"cls": "closed", "dim": dim, "H": H.tolist(), "order": order, "nref": nref, "Nt": int(rng.integers(5, 41)), "dt": dt,
                      "rwa_split": int(rng.integers(1, dim)), "offset": r3(rng.uniform(2.0, 30.0)) * hs, "seed": int(rng.integers(1 << 30)), "cost": 1})
    labels = ["stR", "stR-ops", "stR-sec", "stF", "cRF", "direct-Redfield", "direct-Foerster-pd", "stR-TD", "stF-TD", "cRF-TD", "stR-TD-sec", "neF", "neF-TD", "stR-TD-cut", "stR-TD-ops"]
    reps = 4 if tier == "quick" else 16
    for lab in labels:
        for r in range(reps):
            c = tensors.gen_case(rng, lab, tier)
            c["cls"] = "tensor:" + lab
            c["method"] = str(rng.choice(["short-exp-2", "short-exp-4", "short-exp-6"]))
            c["nref"] = int(rng.choice([1, 2, 4])) if "TD" not in lab else 1
            c["state"] = str(rng.choice(["mixed", "pure", "populations"]))
            c["Nt_prop"] = int(rng.integers(8, 41))
            c["x_target"] = r3(10 ** rng.uniform(math.log10(0.03), math.log10(0.3)))
            c["cost"] = 6 + (c["sys"]["Nt"] / 20.0 if "TD" in lab else 0)
            cases.append(c)
    return cases


def valid_state_checks(ctx, data, det, bound, positive):
    """data: (Nt,N,N); bound: per-index array"""
    Nt = data.shape[0]
    tr = numpy.trace(data, axis1=1, axis2=2)
    sc = float(numpy.max(numpy.abs(data)))
    rnd = 512 * EPS * max(sc, 1.0) * numpy.arange(1, Nt + 1) * det.get("work_per_step", 1)
    ctx.require("finite", bool(numpy.all(numpy.isfinite(data))), det)
    r = numpy.abs(tr - 1.0)
    i = int(numpy.argmax(r - rnd))
    ctx.check("trace", float(r[i]), float(rnd[i]), dict(det, index=i))
    h = numpy.max(numpy.abs(data - numpy.conj(numpy.transpose(data, (0, 2, 1)))), axis=(1, 2))
    i = int(numpy.argmax(h - rnd))
    ctx.check("hermitian", float(h[i]), float(rnd[i]), dict(det, index=i))
    if positive:
        worst, wi = -1.0, 0
        for k in range(Nt):
            w = numpy.linalg.eigvalsh((data[k] + data[k].conj().T) / 2)
            v = -float(w.min()) / (bound[k] + rnd[k])
            if v > worst:
                worst, wi = v, k
        ctx.check("positive", worst, 1.0, dict(det, index=wi, what="-lambda_min over (truncation bound + rounding)"))


def run_case(case, ctx):
    import quantarhei as qr
    from quantarhei import qm
    cls = case["cls"]
    rng = numpy.random.default_rng(case["seed"])

    if cls == "lindblad":
        dim = case["dim"]
        Hd = numpy.array(case["H"], dtype=float)
        if case["rwa"]:
            Hd[:case["rwa_split"], case["rwa_split"]:] = 0.0
            Hd[case["rwa_split"]:, :case["rwa_split"]] = 0.0
            Hd = Hd + numpy.diag([0.0 if i < case["rwa_split"] else case["offset"] for i in range(dim)])
        order = METHODS[case["method"]]
        nref = case["nref"]
        t = qr.TimeAxis(0.0, case["Nt"], case["dt"])
        rho0 = build.random_state(rng, dim, kind=case["state"])
        Ks = [numpy.array(K, dtype=float) for K in case["ops"]]
        G = None
        with ctx.lib("Lindblad propagation", mechanism=None):
            with contextlib.redirect_stdout(io.StringIO()):
                H = qr.Hamiltonian(data=Hd.copy())
                if case["rwa"]:
                    H.set_rwa([0, case["rwa_split"]])
                sbi = qm.SystemBathInteraction(sys_operators=[qm.Operator(data=K.copy()) for K in Ks], rates=list(case["rates"]))
                Lf = qm.LindbladForm(H, sbi, as_operators=case["as_operators"])
                kw = {}
                if case["pdeph"]:
                    A = rng.uniform(0.0, 0.05 / case["dt"], size=(dim, dim))
                    G = (A + A.T) / 2
                    numpy.fill_diagonal(G, 0.0)
                    kw["PDeph"] = qm.PureDephasing(drates=G.copy(), dtype=case["pdeph"])
                prop = qm.ReducedDensityMatrixPropagator(t, H, Lf, **kw)
                ev = prop.propagate(qr.ReducedDensityMatrix(data=rho0.copy()), method=case["method"], Nref=nref)
                data = numpy.array(ev.data)
                in_rwa = bool(getattr(ev, "is_in_rwa", False))
        det = {"dim": dim, "method": case["method"], "Nref": nref, "as_operators": case["as_operators"], "rwa": case["rwa"], "state": case["state"],
               "pdeph": case["pdeph"], "Nt": case["Nt"], "dt": case["dt"], "work_per_step": nref * order}
        ctx.require("rwa-flag", in_rwa == case["rwa"], det)
        Heff = Hd - (numpy.diag([0.0 if i < case["rwa_split"] else float(numpy.mean(numpy.diag(Hd)[case["rwa_split"]:])) for i in range(dim)]) if case["rwa"] else 0.0)
        if case["rwa"]:
            # block averages as the library defines them
            e = numpy.diag(Hd)
            blk = numpy.zeros(dim)
            blk[:case["rwa_split"]] = numpy.mean(e[:case["rwa_split"]])
            blk[case["rwa_split"]:] = numpy.mean(e[case["rwa_split"]:])
            Heff = Hd - numpy.diag(blk)
        L = gksl.hamiltonian_part(Heff) + gksl.lindblad_part(Ks, case["rates"])
        bounds, x, M = gksl.taylor_bounds(L, case["dt"] / nref, order, nref, case["Nt"], float(numpy.linalg.norm(rho0)))
        det["x"] = x
        det["M"] = M
        if case["pdeph"] is None:
            valid_state_checks(ctx, data, det, bounds, positive=True)
            ref = gksl.propagate_exact(L, rho0, numpy.array(t.data))
            err = numpy.sqrt(numpy.sum(numpy.abs(data - ref) ** 2, axis=(1, 2)))
            b = bounds * 4 + 1e-12
            i = int(numpy.argmax(err / b))
            ctx.check("lindblad==expm", float(err[i]), float(b[i]), dict(det, index=i))
            moved = float(numpy.max(numpy.abs(ref - rho0[None])))
            ctx.nontrivial(moved > 100 * float(bounds[-1] * 4 + 1e-12) and sum(case["rates"]) > 0)
        else:
            valid_state_checks(ctx, data, det, bounds, positive=False)
            # the scheme the propagator documents: every refined sub-step is the generator's step followed by the exact decay factor
            # of the pure dephasing over that sub-step.  Reference: the same splitting with the EXACT sub-step exponential; what is left
            # between the two is the truncation of the short-time expansion only.
            import scipy.linalg as sl
            h = case["dt"] / nref
            Uh = sl.expm(L * h)

            def split_reference(Gm):
                ref_ = numpy.zeros_like(data)
                ref_[0] = rho0
                rho = rho0.copy()
                S0_ = None
                for n in range(1, case["Nt"]):
                    tN = float(t.data[n - 1])
                    for jj in range(nref):
                        tt = tN + jj * h
                        rho = gksl.unvec(Uh @ gksl.vec(rho), dim)
                        fac = numpy.exp(-Gm * h) if case["pdeph"] == "Lorentzian" else numpy.exp(-Gm * h * h / 2.0) * numpy.exp(-Gm * h * tt)
                        if S0_ is None:
                            S0_ = numpy.diag(fac.reshape(-1)) @ Uh
                        rho = rho * fac
                    ref_[n] = rho
                return ref_, S0_
            ref, S0 = split_reference(G)
            # stability constant of the split step map (decay factors only contract)
            Ms, P = 1.0, numpy.eye(dim * dim, dtype=complex)
            for k in range(min(case["Nt"] * nref, 400)):
                P = S0 @ P
                Ms = max(Ms, float(numpy.linalg.norm(P, 2)))
            err = numpy.sqrt(numpy.sum(numpy.abs(data - ref) ** 2, axis=(1, 2)))
            b = bounds * 4 * max(1.0, Ms / M) ** 2 + 1e-12
            i = int(numpy.argmax(err / b))
            ctx.check("lindblad+dephasing==split-expm", float(err[i]), float(b[i]), dict(det, index=i, Ms=Ms))
            # the caller changes the dephasing rates of the PureDephasing object the propagator holds (in place, or by assigning a new
            # array) and runs the same propagator again: the run follows the rates as they are now
            G2 = G * 1.7 + 0.3 * float(numpy.max(G)) * (1.0 - numpy.eye(dim))
            how_pd = ["in-place", "assigned"][case["seed"] % 2]
            with ctx.lib("propagation after the dephasing rates were changed", mechanism=None):
                with contextlib.redirect_stdout(io.StringIO()):
                    pdo = kw["PDeph"]
                    if how_pd == "in-place":
                        pdd = pdo.data
                        pdd[:, :] = G2
                    else:
                        pdo.data = G2.copy()
                    data2 = numpy.array(prop.propagate(qr.ReducedDensityMatrix(data=rho0.copy()), method=case["method"], Nref=nref).data)
            ref2, _S = split_reference(G2)
            err2 = numpy.sqrt(numpy.sum(numpy.abs(data2 - ref2) ** 2, axis=(1, 2)))
            i2 = int(numpy.argmax(err2 / b))
            ctx.check("lindblad+dephasing==split-expm", float(err2[i2]), float(b[i2]), dict(det, index=i2, what="same propagator after the dephasing rates were changed (" + how_pd + ")"))
            moved = float(numpy.max(numpy.abs(ref - rho0[None])))
            ctx.nontrivial(moved > 100 * float(b[-1]))
        ctx.key(("lindblad", dim, case["method"], nref, case["as_operators"], case["rwa"], case["pdeph"], case["state"], case["seed"]))
        return

    if cls == "closed":
        from quantarhei.qm.propagators.svpropagator import StateVectorPropagator
        dim = case["dim"]
        Hd = numpy.array(case["H"], dtype=float)
        if case["seed"] % 4 == 2:
            # Hermitian Hamiltonian with complex couplings (the same moduli, random phases)
            prng = numpy.random.default_rng(case["seed"] + 11)
            ph = numpy.exp(1j * numpy.triu(prng.uniform(0.2, 2.9, size=(dim, dim)), 1))
            ph = numpy.triu(ph, 1)
            Hd = numpy.diag(numpy.diag(Hd)).astype(complex) + numpy.triu(Hd, 1) * ph + (numpy.triu(Hd, 1) * ph).conj().T
        split = case["rwa_split"]
        # two or three rotating-wave blocks; the block mean energies of three blocks are not equidistant
        rwab = [0, split]
        if dim >= 3 and case["seed"] % 2 == 1:
            s2 = split + 1 + (case["seed"] // 2) % (dim - split) if split < dim - 1 else None
            if s2 is not None and s2 < dim:
                rwab = [0, split, s2]
        blocks = [(rwab[k], rwab[k + 1] if k + 1 < len(rwab) else dim) for k in range(len(rwab))]
        boffs = [0.0, case["offset"], 2.37 * case["offset"]][:len(blocks)]
        # no coupling between the RWA blocks (as in an aggregate Hamiltonian): only then is the rotating frame exact
        Hblk = Hd.copy()
        for (lo_, hi_) in blocks:
            Hblk[lo_:hi_, :lo_] = 0.0
            Hblk[lo_:hi_, hi_:] = 0.0
        Hlab = Hblk + numpy.diag([boffs[k] for k, (lo_, hi_) in enumerate(blocks) for _ in range(lo_, hi_)])
        order = case["order"]
        nref = case["nref"]
        method = "short-exp-%d" % order
        t = qr.TimeAxis(0.0, case["Nt"], case["dt"])
        psi0 = rng.normal(size=dim) + 1j * rng.normal(size=dim)
        psi0 /= numpy.linalg.norm(psi0)
        rho0 = numpy.outer(psi0, psi0.conj())
        det = {"dim": dim, "order": order, "Nref": nref, "Nt": case["Nt"], "dt": case["dt"], "work_per_step": nref * order, "rwa_blocks": [list(b_) for b_ in blocks], "complex_H": bool(numpy.iscomplexobj(Hd))}
        if numpy.iscomplexobj(Hd):
            ctx.event("closed_cases_with_complex_hermitian_hamiltonian")
        # ---- (1) no RWA: everything in the frame of Hd
        with ctx.lib("closed-system propagation (no RWA)", mechanism=None):
            H1 = qr.Hamiltonian(data=Hd.copy())
            p = qm.ReducedDensityMatrixPropagator(t, H1)
            rin_store = rho0.copy()
            rin = qr.ReducedDensityMatrix(data=rin_store)
            ev = p.propagate(rin, method=method, Nref=nref)
            d = numpy.array(ev.data)
            # the caller's density-matrix object used again, and a state whose matrix was handed over as a real (float) array
            d_again = numpy.array(p.propagate(rin, method=method, Nref=nref).data)
            rr_ = numpy.real(rho0).astype(float).copy()
            d_rr = numpy.array(p.propagate(qr.ReducedDensityMatrix(data=rr_.copy()), method=method, Nref=nref).data)
            sp = StateVectorPropagator(t, H1)
            sp.setDtRefinement(nref)
            psi_store = psi0.copy()                     # complex storage handed to the library, kept by the caller
            sv_in = qr.StateVector(data=psi_store)
            sv = sp.propagate(sv_in, L=order)
            psi = numpy.array(sv.data)
            # the caller's state object used again (as a program that compares orders or refinements does)
            psi_again = numpy.array(sp.propagate(sv_in, L=order).data)
            rho_from_sv = numpy.array(sv_in.get_DensityMatrix().data) if hasattr(sv_in, "get_DensityMatrix") else None
        L = gksl.hamiltonian_part(Hd)
        bounds, x, M = gksl.taylor_bounds(L, case["dt"] / nref, order, nref, case["Nt"], 1.0)
        det["x"] = x
        ctx.check("closed==expm", float(numpy.max(numpy.abs(d_again - d))), 0.0, dict(det, what="second propagation of the same ReducedDensityMatrix object"))
        ctx.check("closed==expm", float(numpy.max(numpy.abs(rin_store - rho0))), 0.0, dict(det, what="the caller's initial density matrix after the propagation"))
        ref_rr = gksl.propagate_exact(L, rr_.astype(complex), numpy.array(t.data))
        e_rr = numpy.sqrt(numpy.sum(numpy.abs(d_rr - ref_rr) ** 2, axis=(1, 2)))
        i = int(numpy.argmax(e_rr / (bounds * 4 + 1e-12)))
        ctx.check("closed==expm", float(e_rr[i]), float(bounds[i] * 4 + 1e-12), dict(det, index=i, what="initial state stored as a real array"))
        ctx.check("closed:psi-vs-rho", float(numpy.max(numpy.abs(psi_again - psi))), 0.0, dict(det, what="second state-vector propagation of the same StateVector object"))
        ctx.check("closed:psi-vs-rho", float(numpy.max(numpy.abs(psi_store - psi0))), 0.0, dict(det, what="the caller's initial state vector after the propagation"))
        if rho_from_sv is not None:
            ctx.check("closed:psi-vs-rho", float(numpy.max(numpy.abs(rho_from_sv - rho0))), 1e-14, dict(det, what="density matrix of the initial state vector after it was propagated"))
        b = bounds * 4 + 1e-12
        valid_state_checks(ctx, d, det, bounds, positive=True)
        pur = numpy.abs(numpy.einsum("tij,tji->t", d, d).real - 1.0)
        en = numpy.abs(numpy.einsum("ij,tji->t", Hd, d).real - float(numpy.real(psi0.conj() @ Hd @ psi0)))
        hs = max(float(numpy.linalg.norm(Hd, 2)), 1e-300)
        r = numpy.maximum(pur / (2 * b), en / (hs * b))
        i = int(numpy.argmax(r))
        ctx.check("closed:norm-purity-energy", float(r[i]), 1.0, dict(det, index=i, purity_dev=float(pur[i]), energy_dev=float(en[i])))
        # the state vector is generated by -iH: its Taylor error is governed by ||H|| dt (a common energy shift matters)
        xs = hs * case["dt"] / nref
        locs = xs ** (order + 1) / math.factorial(order + 1) * math.exp(xs)
        bs = numpy.array([n * nref * locs * (1.0 + locs) ** (n * nref) for n in range(case["Nt"])]) * 2 + 1e-12
        nr = numpy.abs(numpy.sum(numpy.abs(psi) ** 2, axis=1) - 1.0)
        i = int(numpy.argmax(nr / (3 * bs)))
        ctx.check("closed:norm-purity-energy", float(nr[i]), float(3 * bs[i]), dict(det, index=i, what="state-vector norm", x_psi=xs))
        pp = numpy.einsum("ti,tj->tij", psi, psi.conj())
        e2 = numpy.sqrt(numpy.sum(numpy.abs(pp - d) ** 2, axis=(1, 2)))
        bb = 3 * bs + b
        i = int(numpy.argmax(e2 / bb))
        ctx.check("closed:psi-vs-rho", float(e2[i]), float(bb[i]), dict(det, index=i, x_psi=xs))
        ref = gksl.propagate_exact(L, rho0, numpy.array(t.data))
        e3 = numpy.sqrt(numpy.sum(numpy.abs(d - ref) ** 2, axis=(1, 2)))
        i = int(numpy.argmax(e3 / b))
        ctx.check("closed==expm", float(e3[i]), float(b[i]), dict(det, index=i))
        # ---- (1b) the SAME propagator and Hamiltonian objects after the Hamiltonian was changed: every run follows the generator
        #      the Hamiltonian defines at the time of the call (new matrix; rotating-wave frame switched on later)
        Hd2 = 0.8 * Hblk + numpy.diag([float("%.4g" % v) for v in rng.normal(size=dim) * 0.1 * hs])
        with ctx.lib("re-used propagator after the Hamiltonian changed", mechanism=None):
            H1.data = Hd2.copy()
            d_b = numpy.array(p.propagate(qr.ReducedDensityMatrix(data=rho0.copy()), method=method, Nref=nref).data)
            H1.set_rwa(list(rwab))
            ev_c = p.propagate(qr.ReducedDensityMatrix(data=rho0.copy()), method=method, Nref=nref)
            c_rwa = bool(ev_c.is_in_rwa)
            ev_c.convert_from_RWA(H1)
            d_c = numpy.array(ev_c.data)
        L2 = gksl.hamiltonian_part(Hd2)
        b2, x2, M2 = gksl.taylor_bounds(L2, case["dt"] / nref, order, nref, case["Nt"], 1.0)
        b2 = b2 * 4 + 1e-12
        ref2 = gksl.propagate_exact(L2, rho0, numpy.array(t.data))
        e_b = numpy.sqrt(numpy.sum(numpy.abs(d_b - ref2) ** 2, axis=(1, 2)))
        i = int(numpy.argmax(e_b / b2))
        ctx.check("closed==expm", float(e_b[i]), float(b2[i]), dict(det, index=i, what="same propagator after ham.data was assigned"))
        ctx.require("closed:rwa==lab", c_rwa, dict(det, what="evolution not flagged as rotating-frame after set_rwa on a used Hamiltonian"))
        e_c = numpy.sqrt(numpy.sum(numpy.abs(d_c - ref2) ** 2, axis=(1, 2)))
        i = int(numpy.argmax(e_c / b2))
        ctx.check("closed:rwa==lab", float(e_c[i]), float(b2[i]), dict(det, index=i, what="same propagator after set_rwa was switched on (converted back)"))
        # ---- (2) same physics with a large optical offset: RWA-then-converted-back must equal the laboratory-frame dynamics
        with ctx.lib("closed-system propagation (RWA, converted back)", mechanism=None):
            H2 = qr.Hamiltonian(data=Hlab.copy())
            H2.set_rwa(list(rwab))
            ev2 = qm.ReducedDensityMatrixPropagator(t, H2).propagate(qr.ReducedDensityMatrix(data=rho0.copy()), method=method, Nref=nref)
            was_rwa = bool(ev2.is_in_rwa)
            ev2.convert_from_RWA(H2)
            d2 = numpy.array(ev2.data)
            sp2 = StateVectorPropagator(t, H2)
            sp2.setDtRefinement(nref)
            sv2 = sp2.propagate(qr.StateVector(data=psi0.copy()), L=order)
            sv_was_rwa = bool(sv2.is_in_rwa)
            psi_rwa = numpy.array(sv2.data).copy()
            sv2.convert_from_RWA(H2)
            psi_lab = numpy.array(sv2.data).copy()
            sv2.convert_to_RWA(H2)
            psi_back = numpy.array(sv2.data).copy()
        ctx.require("closed:rwa==lab", was_rwa and sv_was_rwa, dict(det, what="evolutions not flagged as rotating-frame"))
        # exact laboratory-frame dynamics of Hlab (expm does not care about the fast phases)
        lab = numpy.zeros_like(d2)
        labpsi = numpy.zeros_like(psi_lab)
        import scipy.linalg as sl
        for k, tk in enumerate(t.data):
            U = sl.expm(-1j * Hlab * tk)
            labpsi[k] = U @ psi0
            lab[k] = U @ rho0 @ U.conj().T
        # truncation bound in the rotating frame (block averages removed)
        e = numpy.real(numpy.diag(Hlab))
        blk = numpy.zeros(dim)
        for (lo_, hi_) in blocks:
            blk[lo_:hi_] = numpy.mean(e[lo_:hi_])
        Lr = gksl.hamiltonian_part(Hlab - numpy.diag(blk))
        bR, xR, MR = gksl.taylor_bounds(Lr, case["dt"] / nref, order, nref, case["Nt"], 1.0)
        bR = bR * 4 + 1e-11
        e4 = numpy.sqrt(numpy.sum(numpy.abs(d2 - lab) ** 2, axis=(1, 2)))
        i = int(numpy.argmax(e4 / bR))
        ctx.check("closed:rwa==lab", float(e4[i]), float(bR[i]), dict(det, index=i, what="density matrix", x_rwa=xR))
        e5 = numpy.sqrt(numpy.sum(numpy.abs(psi_lab - labpsi) ** 2, axis=1))
        xsr = float(numpy.linalg.norm(Hlab - numpy.diag(blk), 2)) * case["dt"] / nref
        locr = xsr ** (order + 1) / math.factorial(order + 1) * math.exp(xsr)
        bsr = numpy.array([n * nref * locr * (1.0 + locr) ** (n * nref) for n in range(case["Nt"])]) * 2 + 1e-11
        i = int(numpy.argmax(e5 / bsr))
        ctx.check("closed:rwa==lab", float(e5[i]), float(bsr[i]), dict(det, index=i, what="state vector", x_rwa_psi=xsr))
        ctx.check("closed:rwa-roundtrip", float(numpy.max(numpy.abs(psi_back - psi_rwa))), 1e-12, dict(det, what="convert_to_RWA(convert_from_RWA(psi))"))
        moved = float(numpy.max(numpy.abs(ref - rho0[None])))
        ctx.key(("closed", dim, order, nref, case["Nt"], case["seed"]))
        ctx.nontrivial(moved > 100 * float(b[-1]))
        return

    # ---------------------------------------------------------- tensor:*
    label = case["label"]
    with ctx.lib("tensor construction [%s]" % label, mechanism=None):
        Bd = tensors.build_case(case)
    R, hamR, t = Bd["R"], Bd["hamR"], Bd["t"]
    dim = hamR.dim
    td = "TD" in label
    order = METHODS[case["method"]]
    nref = case["nref"]
    if td:
        tp = t
    else:
        # time step chosen from the generator's own norm so that the truncation bound is meaningful
        ops_form0 = bool(getattr(R, "as_operators", False))
        T0 = tensors.tensor_by_apply(R, dim) if ops_form0 else numpy.array(R.data)
        H0 = numpy.array(hamR.data, dtype=float)
        if hamR.has_rwa:
            H0 = H0 - numpy.diag(numpy.array(hamR.rwa_energies, dtype=float))
        nL = float(numpy.linalg.norm(gksl.hamiltonian_part(H0) + gksl.tensor_part(T0), 2))
        tp = qr.TimeAxis(0.0, case["Nt_prop"], float("%.4g" % (case["x_target"] * case["nref"] / nL)))
    rho0 = numpy.zeros((dim, dim), dtype=complex)
    rho0[1:, 1:] = build.random_state(rng, dim - 1, kind=case["state"])
    if rng.random() < 0.5:
        rho0 = 0.5 * rho0
        rho0[0, 0] = 0.5
        # (a time-dependent tensor fixes the time step; where its Hamiltonian carries no rotating-wave frame - the combined theory returns a
        #  plain copy - optical coherences would rotate by several radians per step, far outside the range of any short-time expansion:
        #  such runs start in the excited block only)
        lab_frame_td = td and not hamR.has_rwa
        if lab_frame_td:
            ctx.event("td_cases_without_rwa_started_in_the_excited_block")
        if case["state"] != "populations" and not lab_frame_td:
            v = 0.2 * (rng.normal(size=dim - 1) + 1j * rng.normal(size=dim - 1)) / math.sqrt(dim)
            rho0[0, 1:] = v
            rho0[1:, 0] = v.conj()
    with ctx.lib("propagation with tensor [%s]" % label, mechanism=None):
        with contextlib.redirect_stdout(io.StringIO()):
            prop = qm.ReducedDensityMatrixPropagator(tp, hamR, R)
            ev = prop.propagate(qr.ReducedDensityMatrix(data=rho0.copy()), method=case["method"], Nref=nref)
            data = numpy.array(ev.data)
    det = {"config": label, "N": case["sys"]["N"], "method": case["method"], "Nref": nref, "state": case["state"], "work_per_step": nref * order * 4}
    Nt = data.shape[0]
    if not td:
        # the generator the object defines, read through its public surface outside any context
        ops_form = bool(getattr(R, "as_operators", False))
        Tn = tensors.tensor_by_apply(R, dim) if ops_form else numpy.array(R.data)
        Hd = numpy.array(hamR.data, dtype=float)
        if hamR.has_rwa:
            Hd = Hd - numpy.diag(numpy.array(hamR.rwa_energies, dtype=float))
        L = gksl.hamiltonian_part(Hd) + gksl.tensor_part(Tn)
        bounds, x, M = gksl.taylor_bounds(L, tp.step / nref, order, nref, Nt, float(numpy.linalg.norm(rho0)))
        det["x"] = x
        det["M"] = M
        valid_state_checks(ctx, data, det, bounds, positive=False)
        ref = gksl.propagate_exact(L, rho0, numpy.array(tp.data))
        err = numpy.sqrt(numpy.sum(numpy.abs(data - ref) ** 2, axis=(1, 2)))
        b = bounds * 4 + 1e-12
        i = int(numpy.argmax(err / b))
        vac = bool(b[-1] > 0.1 * float(numpy.max(numpy.abs(ref - rho0[None]))))
        if not vac:
            ctx.check("tensor-generator==expm", float(err[i]), float(b[i]), dict(det, index=i))
        else:
            ctx.event("vacuous_bound_cases")
        ctx.nontrivial(not vac)
    else:
        valid_state_checks(ctx, data, det, numpy.zeros(Nt), positive=False)
        moved = float(numpy.max(numpy.abs(data - rho0[None])))
        ctx.nontrivial(moved > 1e-3)
    ctx.key(("tensor", label, case["sys"]["N"], case["method"], nref, case["state"], tuple(case["sys"]["E"])))
