"""C04  Basis-change contexts are transparent and self-restoring.

Random programs over basis-managed objects (enter/leave nested contexts, create,
read, write, protect/unprotect, apply, propagate, basis-independent scalars)
are interpreted against the real library and, in lock step, against a shadow
basis stack kept by the harness.  Exceptions are injected both by the harness
(at a random program step) and as source-free failpoints (sys.monitoring LINE
events raising at a random statement inside library frames that run within a
context).  After every EXIT and at the end of the program all objects and the
Manager bookkeeping are compared with their pre-context state.
"""
import io
import sys
import contextlib
import numpy

LEVEL = "exploration"
RULE = ("random programs of 5-40 events over objects drawn from {Operator, SelfAdjointOperator, Hamiltonian, ReducedDensityMatrix, DensityMatrix, "
        "TransitionDipoleMoment, SuperOperator, Lindblad relaxation tensor (tensor and operator form), DensityMatrixEvolution} of dimension 2-5, nesting "
        "depth 1-3, the same or different context operators incl. degenerate and already diagonal ones, objects created inside contexts, protect/unprotect in "
        "the documented idiom, a harness exception at a random event (50 %) or a failpoint at a random library statement (15 %); context operators are "
        "Hamiltonians and SelfAdjointOperators and are themselves written between visits (element writes through the managed array, assignment, "
        "remove/subtract/recover_cutoff_coupling, Operator.__add__), visited with and without being read or protected ('revisit' programs); objects "
        "extracted with at(t) from evolutions and evolution superoperators are tracked next to their source; the repository's own unit tests run in-process under "
        "the frame-level leak detector (every library frame must return with the basis stack it was entered with); 26 library computations "
        "(propagation with seven kinds of generator, tensor actions, evolution superoperator, Redfield-family builders, rates, thermal states, "
        "dipole operator) made inside a context on objects made outside vs the same made outside; protected context operators entered from other levels, incl. a directed class with the operator stored 0..k levels behind the current basis at depth 2-4 under real and complex outer operators. "
        "distinct = (event-kind sequence, nesting profile, exception class); non-trivial iff at least one object was actually transformed (read inside a "
        "context whose transformation is not the identity) before the final check.")
RULE = RULE + " Round-6 workloads: evolutions are given new initial conditions inside and outside contexts (REINIT events)."
RULE = RULE + " Round-7 workloads: already diagonal context operators have their levels in any order (also with equal ones); the ordering clause is evaluated on the context's matrix whether or not the operator is read."
ASSUMPTIONS = ["the transformation matrix the library puts on its stack is *validated* (orthogonal; diagonalises the context operator with ascending eigenvalues) "
               "and then used by the shadow stack: degenerate eigenvectors are not unique, so an independent eigh cannot predict the presented numbers",
               "failpoints are not placed inside the basis machinery itself (transform, transform_to_current_basis, __enter__/__exit__ of eigenbasis_of, the "
               "managed-array property accessors): in-place transformations are not atomic and the statement promises restoration when the context is *left*",
               "protecting an object after it was transformed inside a context keeps the inner representation by documented semantics: only the idiom "
               "protect-before-entry / unprotect-after-exit is generated",
               "StateVector objects are not in the statement's list",
               "context operators with complex off-diagonal elements (unitary transformations): presentation, restoration and bookkeeping are "
               "checked for every kind of object; the ACTION of operator-form tensors inside such a context is not (the library forms K^dagger of "
               "its real-by-construction operators as a transpose)",
               "'library-inside-context' covers computations whose inputs are all basis managed (tensors and states made outside, the "
               "aggregate's Redfield-family builders which use the protect/enter idiom).  Not claimed inside a context, because their inputs are "
               "unmanaged site-basis data by design: PureDephasing (documented 'intentionally not basis managed'), constructors fed by a "
               "SystemBathInteraction (LindbladForm, direct RedfieldRelaxationTensor: 'THIS ASSUMES WE ARE IN SITE BASIS'), Foerster-type builders "
               "('done strictly in site basis'), impulsive excitation; spectrum calculators refuse to run inside a context"]
MIN_NONTRIVIAL = {"quick": 150, "thorough": 1000}
REQUIRED_CLAUSES = ["context-operator-diagonal-ascending", "presented-in-context-basis", "scalars-invariant", "restored-after-exit", "bookkeeping-restored"]
TIMEOUT = {"quick": 900, "thorough": 3400}
EPS = numpy.finfo(float).eps
KINDS = ["Operator", "SelfAdjointOperator", "Hamiltonian", "ReducedDensityMatrix", "DensityMatrix", "TransitionDipoleMoment", "SuperOperator",
         "LindbladTensor", "LindbladOperators", "Evolution", "EvolutionSuperOperator", "HamiltonianJR"]


COPY_KINDS = tuple(KINDS)


def gen_cases(tier, rng):
    cases = []
    n = 400 if tier == "quick" else 3000
    for i in range(n):
        u = rng.random()
        exc = "harness" if u < 0.5 else ("failpoint" if u < 0.65 else "none")
        cases.append({"cls": "program:" + exc, "seed": int(rng.integers(1 << 30)), "dim": int(rng.integers(2, 6)), "nobj": int(rng.integers(2, 6)),
                      "depth": int(rng.integers(1, 4)), "exc": exc, "steps": int(rng.integers(5, 41)), "complex_ctx": bool(i % 4 == 3), "cost": 1})
    for i in range(12 if tier == "quick" else 60):
        cases.append({"cls": "constructor-failure", "seed": int(rng.integers(1 << 30)), "dim": int(rng.integers(2, 5)), "depth": int(rng.integers(1, 3)),
                      "which": str(rng.choice(["Operator", "SuperOperator", "TransitionDipoleMoment", "ReducedDensityMatrix"])), "cost": 0.5})
    for i in range(60 if tier == "quick" else 400):
        kind = ["Hamiltonian", "SelfAdjointOperator"][i % 2]
        pool = ["cutoff", "subtract", "recover", "assign", "add"] if kind == "Hamiltonian" else ["element", "element", "add", "assign"]
        cases.append({"cls": "revisit", "seed": int(rng.integers(1 << 30)), "dim": int(rng.integers(3, 6)), "kind": kind,
                      "first": str(rng.choice(["unread", "protected", "read"])), "write": [str(w) for w in rng.choice(pool, size=int(rng.integers(1, 4)))], "cost": 0.5})
    for i in range(48 if tier == "quick" else 320):
        depth = 2 + i % 3
        cases.append({"cls": "protected-from-afar", "seed": int(rng.integers(1 << 30)), "dim": int(rng.integers(3, 6)), "depth": depth,
                      "stored_at": int(rng.integers(0, depth + 1)), "complex": bool(i % 5 == 4), "cost": 0.5})
    from qrv import repotests
    cases.extend(repotests.gen_cases(tier))
    # library computations carried out inside a context on objects made outside: results (read after the context is left) equal those of the
    # same computation made outside
    from qrv import build as _b
    for i in range(8 if tier == "quick" else 60):
        N = 2 + i % 2
        sysd = _b.gen_system(rng, N=N, Nt=int(rng.integers(80, 140)), dt=1.0, shared_bath=False, dipoles=True)
        cases.append({"cls": "library-inside-context", "sys": sysd, "seed": int(rng.integers(1 << 30)), "ctxop": ["own", "same-data", "random"][i % 3], "cost": 12})
    return cases


class Boom(Exception):
    pass


class FailPoint:
    """source-free failpoint: raises Boom at the n-th executed statement of in-scope library code"""

    SKIP = {"transform", "transform_to_current_basis", "__enter__", "__exit__", "set_current_basis", "register_with_basis", "prop",
            "get_current_basis", "set_new_basis", "get_diagonalization_matrix", "diagonalize", "undiagonalize", "store_current_basis_operator",
            "remove_current_basis_operator", "__del__", "protect_basis", "unprotect_basis"}

    def __init__(self, root):
        self.mon = sys.monitoring
        self.tool = self.mon.PROFILER_ID
        self.root = root
        self.count = -1
        self.fired = None
        self.ok = False
        try:
            self.mon.use_tool_id(self.tool, "qrv-failpoint")
            self.mon.register_callback(self.tool, self.mon.events.LINE, self._line)
            self.ok = True
        except Exception:
            self.ok = False

    def _line(self, code, lineno):
        if not code.co_filename.startswith(self.root):
            return self.mon.DISABLE
        if self.count < 0:
            return
        if code.co_name in self.SKIP:
            return
        # not below the basis machinery either
        f = sys._getframe(1)
        depth = 0
        while f is not None and depth < 40:
            if f.f_code.co_name in self.SKIP and f.f_code.co_filename.startswith(self.root):
                return
            f = f.f_back
            depth += 1
        self.count -= 1
        if self.count < 0:
            self.fired = "%s:%d %s" % (code.co_filename[len(self.root):], lineno, code.co_name)
            self.disarm()
            raise Boom("failpoint")

    def arm(self, n):
        if not self.ok:
            return
        self.count = n
        self.fired = None
        self.mon.set_events(self.tool, self.mon.events.LINE)
        self.mon.restart_events()

    def disarm(self):
        if not self.ok:
            return
        self.count = -1
        self.mon.set_events(self.tool, 0)


_fp = {"obj": None}


def setup_worker(ctx):
    import os
    _fp["obj"] = FailPoint(os.path.join(ctx.repo, "quantarhei") + "/")


# ----------------------------------------------------------------------
def rsym(rng, n, kind):
    if kind == "degenerate":
        q, _ = numpy.linalg.qr(rng.normal(size=(n, n)))
        ev = numpy.sort(rng.integers(0, 3, size=n).astype(float))
        return q @ numpy.diag(ev) @ q.T
    if kind == "diagonal":
        # already diagonal, the levels in any order (two uncoupled sites with E1 > E2), possibly with equal ones
        d_ = rng.normal(size=n)
        if n >= 3 and rng.random() < 0.3:
            d_[-1] = d_[-2]
        return numpy.diag(d_ if rng.random() < 0.7 else numpy.sort(d_))
    if kind == "complex":
        a = rng.normal(size=(n, n)) + 1j * rng.normal(size=(n, n))
        return (a + numpy.conj(a).T) / 2
    a = rng.normal(size=(n, n))
    return (a + a.T) / 2


def dag(S):
    """inverse of a unitary (orthogonal) transformation"""
    return numpy.conj(S).T


def tr_op(d, S):
    return dag(S) @ d @ S


def tr_any(d, S, kind):
    """site representation d -> representation in the basis reached by S (columns = new basis vectors)"""
    if kind == "TransitionDipoleMoment":
        return numpy.stack([dag(S) @ d[:, :, k] @ S for k in range(3)], axis=2)
    if kind in ("SuperOperator", "LindbladTensor"):
        return numpy.einsum("ia,jb,ijkl,kc,ld->abcd", numpy.conj(S), S, d, S, numpy.conj(S))
    if kind == "Evolution":
        return numpy.stack([dag(S) @ d[k] @ S for k in range(d.shape[0])], axis=0)
    if kind == "EvolutionSuperOperator":
        return numpy.einsum("ia,jb,tijkl,kc,ld->tabcd", numpy.conj(S), S, d, S, numpy.conj(S))
    if kind in ("LindbladOperators", "HamiltonianJR"):
        return numpy.stack([dag(S) @ d[k] @ S for k in range(d.shape[0])], axis=0)
    return dag(S) @ d @ S


class Obj:
    def __init__(self, kind, obj, ref):
        self.kind = kind
        self.obj = obj
        self.ref = ref            # site-basis representation (numpy)
        self.protected_S = None   # accumulated transformation at protection time
        self.lvl = 0              # nesting level of the representation the object is stored in (context operators only)


def present(o):
    """what the object presents now through its public attributes"""
    if o.kind == "LindbladOperators":
        return numpy.stack([numpy.array(o.obj.Km), numpy.array(o.obj.Lm), numpy.array(o.obj.Ld)], axis=0).reshape(-1, o.obj.Km.shape[1], o.obj.Km.shape[2])
    if o.kind == "HamiltonianJR":
        # a Hamiltonian with a remainder coupling carries two arrays that live in one basis
        d = numpy.array(o.obj.data)
        return numpy.stack([d, numpy.array(o.obj.JR)], axis=0)
    return numpy.array(o.obj.data)


def library_inside_context(case, ctx):
    import quantarhei as qr
    from quantarhei import qm
    from qrv import build, tensors
    rng = numpy.random.default_rng(case["seed"])
    desc = case["sys"]
    CM = 1.8836515673088532e-4
    J = numpy.abs(numpy.triu(numpy.array(desc["J"])))
    nz = numpy.unique(J[J > 0])
    jc = (0.5 * (nz[0] + nz[-1]) if len(nz) >= 2 else (1.5 * nz[0] if len(nz) == 1 else 10.0)) * CM
    out = io.StringIO()

    def mk():
        """everything the computations need, made OUTSIDE any context"""
        agg, t, cfs = build.make_aggregate(desc)
        H = agg.get_Hamiltonian()
        dim = H.dim
        r = numpy.zeros((dim, dim), dtype=complex)
        r[1, 1], r[2, 2], r[1, 2], r[2, 1] = 0.6, 0.4, 0.2 + 0.1j, 0.2 - 0.1j
        S = {"agg": agg, "t": t, "H": H, "rho": qr.ReducedDensityMatrix(data=r), "ts": qr.TimeAxis(0.0, 15, 2.0)}
        S["R"], S["hR"] = agg.get_RelaxationTensor(t, relaxation_theory="stR")
        S["Ro"], S["hRo"] = agg.get_RelaxationTensor(t, relaxation_theory="stR", as_operators=True)
        S["Rtd"], S["hRtd"] = agg.get_RelaxationTensor(t, relaxation_theory="stR", time_dependent=True)
        S["Rtdo"], S["hRtdo"] = agg.get_RelaxationTensor(t, relaxation_theory="stR", time_dependent=True, as_operators=True)
        S["Rf"], S["hRf"] = agg.get_RelaxationTensor(t, relaxation_theory="stF")
        S["Rc"], S["hRc"] = agg.get_RelaxationTensor(t, relaxation_theory="cRF", coupling_cutoff=jc)
        K = qm.ProjectionOperator(1, 2, dim=dim)
        S["L"] = qm.LindbladForm(H, qm.SystemBathInteraction(sys_operators=[K], rates=[1.0 / 150.0]), as_operators=False)
        G = numpy.full((dim, dim), 0.002)
        numpy.fill_diagonal(G, 0.0)
        S["pd"] = qm.PureDephasing(drates=G, dtype="Lorentzian")
        # objects that have already been used outside
        S["eU"] = qr.EvolutionSuperOperator(qr.TimeAxis(0.0, 4, 6.0), S["hR"], S["R"])
        S["eU"].set_dense_dt(3)
        S["eU"].calculate(show_progress=False)
        S["prop"] = qm.ReducedDensityMatrixPropagator(S["ts"], S["hR"], S["R"])
        S["prop"].propagate(S["rho"])
        S["propo"] = qm.ReducedDensityMatrixPropagator(S["ts"], S["hRo"], S["Ro"])
        S["propo"].propagate(S["rho"])
        return S

    def obs(o):
        if isinstance(o, numpy.ndarray):
            return o
        if getattr(o, "as_operators", False):
            return tensors.tensor_by_apply(o, o.Km.shape[1])
        return numpy.array(o.data)

    comps = [
        ("propagate(stR tensor)", lambda S: qm.ReducedDensityMatrixPropagator(S["ts"], S["hR"], S["R"]).propagate(S["rho"])),
        ("propagate(stR operators, Nref=2)", lambda S: qm.ReducedDensityMatrixPropagator(S["ts"], S["hRo"], S["Ro"]).propagate(S["rho"], Nref=2)),
        ("propagate(TD Redfield)", lambda S: qm.ReducedDensityMatrixPropagator(S["t"], S["hRtd"], S["Rtd"]).propagate(S["rho"])),
        ("propagate(TD Redfield, operators)", lambda S: qm.ReducedDensityMatrixPropagator(S["t"], S["hRtdo"], S["Rtdo"]).propagate(S["rho"])),
        ("convert_2_tensor(TD Redfield operators)", lambda S: (S["Rtdo"].convert_2_tensor(), S["Rtdo"])[1]),
        ("propagate(Foerster tensor)", lambda S: qm.ReducedDensityMatrixPropagator(S["ts"], S["hRf"], S["Rf"]).propagate(S["rho"])),
        ("propagate(Redfield-Foerster tensor)", lambda S: qm.ReducedDensityMatrixPropagator(S["ts"], S["hRc"], S["Rc"]).propagate(S["rho"])),
        ("propagate(Lindblad)", lambda S: qm.ReducedDensityMatrixPropagator(S["ts"], S["H"], S["L"]).propagate(S["rho"])),
        ("propagate(no relaxation)", lambda S: qm.ReducedDensityMatrixPropagator(S["ts"], S["H"]).propagate(S["rho"])),
        ("tensor.apply(rho)", lambda S: S["R"].apply(S["rho"])),
        ("operator-form tensor.apply(rho)", lambda S: S["Ro"].apply(S["rho"])),
        ("EvolutionSuperOperator.calculate", None),
        ("EvolutionSuperOperator made outside: apply('all')", lambda S: S["eU"].apply("all", S["rho"])),
        ("EvolutionSuperOperator made outside: apply(list)", lambda S: S["eU"].apply([0.0, 6.0, 12.0], S["rho"])),
        ("EvolutionSuperOperator made outside: apply(t)", lambda S: S["eU"].apply(12.0, S["rho"])),
        ("EvolutionSuperOperator made outside: at(t)", lambda S: S["eU"].at(6.0)),
        ("propagator used outside before: propagate", lambda S: S["prop"].propagate(S["rho"])),
        ("operator-form propagator used outside before: propagate", lambda S: S["propo"].propagate(S["rho"])),
        ("get_RelaxationTensor(stR)", lambda S: S["agg"].get_RelaxationTensor(S["t"], relaxation_theory="stR")[0]),
        ("get_RelaxationTensor(stR, operators)", lambda S: S["agg"].get_RelaxationTensor(S["t"], relaxation_theory="stR", as_operators=True)[0]),
        ("get_RelaxationTensor(stR, secular)", lambda S: S["agg"].get_RelaxationTensor(S["t"], relaxation_theory="stR", secular_relaxation=True)[0]),
        ("get_RelaxationTensor(stR, time dependent)", lambda S: S["agg"].get_RelaxationTensor(S["t"], relaxation_theory="stR", time_dependent=True)[0]),
        ("get_RedfieldRateMatrix", lambda S: numpy.array(S["agg"].get_RedfieldRateMatrix().data)),
        ("get_DensityMatrix(thermal)", lambda S: S["agg"].get_DensityMatrix(condition_type="thermal", temperature=300.0)),
        ("get_DensityMatrix(thermal_excited_state)", lambda S: S["agg"].get_DensityMatrix(condition_type="thermal_excited_state", temperature=300.0)),
        ("get_TransitionDipoleMoment", lambda S: S["agg"].get_TransitionDipoleMoment()),
    ]

    def esuper(S):
        eU = qr.EvolutionSuperOperator(qr.TimeAxis(0.0, 4, 6.0), S["hR"], S["R"])
        eU.set_dense_dt(3)
        eU.calculate(show_progress=False)
        return {"U": eU, "applied": eU.apply("all", S["rho"]), "at": eU.at(12.0)}

    for name, f in comps:
        if f is None:
            f = esuper
        try:
            with ctx.lib("library computation outside / inside a context: " + name, mechanism=None):
                with contextlib.redirect_stdout(out):
                    r1 = f(mk())
                    o1 = {k: obs(v) for k, v in (r1.items() if isinstance(r1, dict) else [("result", r1)])}
                    S2 = mk()
                    if case["ctxop"] == "own":
                        Kop = S2["H"]
                    elif case["ctxop"] == "same-data":
                        Kop = qr.Hamiltonian(data=numpy.array(S2["H"].data))
                    else:
                        Kop = qm.SelfAdjointOperator(data=tensors.random_sao(rng, S2["H"].dim))
                    with qr.eigenbasis_of(Kop):
                        r2 = f(S2)
                    o2 = {k: obs(v) for k, v in (r2.items() if isinstance(r2, dict) else [("result", r2)])}
        except Exception as e:
            if type(e).__name__ == "LibRaised":
                continue
            raise
        for k in o1:
            okshape = o1[k].shape == o2[k].shape
            ctx.require("scalars-invariant", okshape, {"what": "library computation inside a context", "computation": name, "part": k, "why": "shape"})
            if okshape:
                sc = max(float(numpy.max(numpy.abs(o1[k]))), 1e-300)
                ctx.check("scalars-invariant", float(numpy.max(numpy.abs(o1[k] - o2[k]))), 1e-9 * sc,
                          {"what": "library computation made inside a context (objects made outside; result read after the context is left) vs made outside",
                           "computation": name, "part": k, "context_operator": case["ctxop"], "N": desc["N"]})
        ctx.sub(("lib-inside", name, case["ctxop"]), nontrivial=True)
        ctx.event("library_computations_inside_a_context")
    ctx.key(("library-inside-context", case["ctxop"], desc["N"], case["seed"]))
    ctx.nontrivial(True)


def run_case(case, ctx):
    if case["cls"] == "library-inside-context":
        return library_inside_context(case, ctx)
    if case["cls"] == "repo-tests":
        from qrv import repotests
        repotests.run_module(case, ctx, ("basis_stack", "n_basis_transformations", "_in_eigenbasis_of_context"), "bookkeeping-restored", "frame-leaks-basis-state:")
        return
    import quantarhei as qr
    from quantarhei import qm, Manager
    m = Manager()
    rng = numpy.random.default_rng(case["seed"])
    n = case["dim"]
    out = io.StringIO()
    fp = _fp["obj"]
    if case["cls"] == "constructor-failure":
        # an ordinary invalid-input exception raised by a constructor inside a (nested) context
        A = qr.Hamiltonian(data=rsym(rng, n, "generic"))
        A2 = qr.Hamiltonian(data=rsym(rng, n, "generic"))
        Bd = rng.normal(size=(n, n))
        B = qm.Operator(data=Bd.copy())
        Cd = rng.normal(size=(n, n))
        s0 = (tuple(m.basis_stack), len(m.basis_transformations), tuple(sorted(m.basis_registered)), bool(m._in_eigenbasis_of_context), m.current_basis_operator is None)
        seen = None
        try:
            with qr.eigenbasis_of(A):
                _ = B.data
                with (qr.eigenbasis_of(A2) if case["depth"] == 2 else contextlib.nullcontext()):
                    C = qm.Operator(data=Cd.copy())
                    if case["which"] == "Operator":
                        qm.Operator(data=numpy.zeros((n, n + 1)))
                    elif case["which"] == "SuperOperator":
                        qm.SuperOperator(data=numpy.zeros((n, n, n)))
                    elif case["which"] == "TransitionDipoleMoment":
                        qr.TransitionDipoleMoment(data=numpy.zeros((n, n + 1, 3)))
                    else:
                        qr.ReducedDensityMatrix(data=numpy.zeros((n + 1, n)))
        except Exception as e:
            seen = e
        s1 = (tuple(m.basis_stack), len(m.basis_transformations), tuple(sorted(m.basis_registered)), bool(m._in_eigenbasis_of_context), m.current_basis_operator is None)
        ctx.require("bookkeeping-restored", s1 == s0, {"after": "constructor raised inside a context", "which": case["which"], "before": s0, "now": s1,
                                                       "exception_seen": repr(seen)[:120]})
        ok = True
        try:
            ok = bool(numpy.allclose(numpy.array(B.data), Bd, atol=1e-10))
        except Exception as e:
            ok = False
        ctx.require("restored-after-exit", ok, {"what": "object read inside the context, after a constructor failure", "which": case["which"]})
        ctx.require("constructor-failure-raised", seen is not None, {"which": case["which"]})
        ctx.key(("constructor-failure", case["which"], case["depth"], n))
        ctx.nontrivial(seen is not None)
        return
    if case["cls"] == "protected-from-afar":
        # the library's idiom  ham.protect_basis(); with eigenbasis_of(ham): ...  used from within several nested contexts, with the
        # protected operator stored in the representation of ANY of the enclosing levels (it was last looked at there)
        depth, stored_at = case["depth"], case["stored_at"]
        outer = [rsym(rng, n, "complex" if (case["complex"] and k == 0) else "generic") for k in range(depth)]
        Xs = [qm.SelfAdjointOperator(data=d.copy()) for d in outer]
        Pd = rsym(rng, n, str(rng.choice(["generic", "generic", "degenerate"])))
        P = qr.Hamiltonian(data=Pd.copy())
        Bd = rng.normal(size=(n, n))
        B = qm.Operator(data=Bd.copy())
        tol = lambda a: 1e-9 * max(float(numpy.max(numpy.abs(a))), 1.0) * n
        made = {}

        def descend(k, Stot):
            if k == stored_at:
                pd = numpy.array(P.data)
                ctx.check("presented-in-context-basis", float(numpy.max(numpy.abs(pd - dag(Stot) @ Pd @ Stot))), tol(Pd), {"what": "operator read at the level it will be stored in", "level": k})
            if k < depth:
                with qr.eigenbasis_of(Xs[k]):
                    S = numpy.array(m.basis_transformations[-1])
                    descend(k + 1, Stot @ S)
                return
            P.protect_basis()
            try:
                with qr.eigenbasis_of(P):
                    S = numpy.array(m.basis_transformations[-1])
                    St = Stot @ S
                    ctx.check("presented-in-context-basis", float(numpy.max(numpy.abs(dag(St) @ St - numpy.eye(n)))), 1e-10 * n, {"what": "transformation unitary", "level": depth + 1})
                    dg = dag(St) @ Pd @ St
                    ev_ = numpy.linalg.eigvalsh(Pd)
                    ctx.check("presented-in-context-basis", float(numpy.max(numpy.abs(dg - numpy.diag(ev_)))), tol(Pd),
                              {"what": "the context of a protected operator is its eigenbasis (ascending)", "depth": depth, "stored_at": stored_at, "complex": case["complex"]})
                    bd = numpy.array(B.data)
                    ctx.check("presented-in-context-basis", float(numpy.max(numpy.abs(bd - dag(St) @ Bd @ St))), tol(Bd), {"what": "other operator in the context of a protected operator",
                                                                                                                              "depth": depth, "stored_at": stored_at})
                    # an object built inside from the eigenvalues is the operator itself once the contexts are left
                    made["op"] = qm.Operator(data=numpy.diag(ev_).astype(complex if case["complex"] else float))
            finally:
                P.unprotect_basis()

        with ctx.lib("protected operator entered from within nested contexts", mechanism=None):
            with contextlib.redirect_stdout(out):
                descend(0, numpy.eye(n))
                back = numpy.array(made["op"].data)
                pd = numpy.array(P.data)
                bd = numpy.array(B.data)
        ctx.check("restored-after-exit", float(numpy.max(numpy.abs(back - Pd))), tol(Pd), {"what": "operator built inside from the eigenvalues of the protected operator", "depth": depth,
                                                                                           "stored_at": stored_at})
        ctx.check("restored-after-exit", float(numpy.max(numpy.abs(pd - Pd))), tol(Pd), {"what": "protected operator at the end", "depth": depth, "stored_at": stored_at})
        ctx.check("restored-after-exit", float(numpy.max(numpy.abs(bd - Bd))), tol(Bd), {"what": "other operator at the end"})
        for k in range(depth):
            ctx.check("restored-after-exit", float(numpy.max(numpy.abs(numpy.array(Xs[k].data) - outer[k]))), tol(outer[k]), {"what": "outer context operator at the end", "k": k})
        ctx.require("bookkeeping-restored", list(m.basis_stack) == [0] and len(m.basis_transformations) == 1, {"after": "protected-from-afar program"})
        ctx.event("protected_from_afar_programs")
        ctx.key(("protected-from-afar", depth, stored_at, case["complex"], n, case["seed"]))
        ctx.nontrivial(depth - stored_at >= 2)
        return
    if case["cls"] == "revisit":
        # a context operator is written between two visits of its own context; what the second visit presents is decided
        # by the operator's value at that moment, however it was written and whatever happened in the first visit
        kind, first, write = case["kind"], case["first"], case["write"]
        Ad = rsym(rng, n, str(rng.choice(["generic", "generic", "degenerate"])))
        A = (qr.Hamiltonian if kind == "Hamiltonian" else qm.SelfAdjointOperator)(data=Ad.copy())
        Bd = rng.normal(size=(n, n))
        B = qm.Operator(data=Bd.copy())
        ref = Ad.copy()
        jr = None
        tol = lambda a: 1e-9 * max(float(numpy.max(numpy.abs(a))), 1.0) * n

        def visit(how, tag):
            if how == "protected":
                A.protect_basis()
            try:
                with qr.eigenbasis_of(A):
                    S = numpy.array(m.basis_transformations[-1])
                    bd = numpy.array(B.data)
                    ctx.check("presented-in-context-basis", float(numpy.max(numpy.abs(dag(S) @ S - numpy.eye(n)))), 1e-10 * n, {"what": "transformation orthogonal", "visit": tag})
                    dg = dag(S) @ ref @ S
                    ctx.check("presented-in-context-basis", float(numpy.max(numpy.abs(dg - numpy.diag(numpy.diag(dg))))), tol(ref),
                              {"what": "the transformation diagonalises the context operator as it is now", "visit": tag, "kind": kind, "first": first, "write": write})
                    ctx.check("presented-in-context-basis", float(numpy.max(numpy.abs(bd - dag(S) @ Bd @ S))), tol(Bd), {"what": "other operator in the context basis", "visit": tag})
                    if how == "read":
                        ad = numpy.array(A.data)
                        off = float(numpy.max(numpy.abs(ad - numpy.diag(numpy.diag(ad)))))
                        asc = float(max(0.0, -numpy.min(numpy.diff(numpy.diag(ad)))))
                        ctx.check("context-operator-diagonal-ascending", max(off, asc), tol(ref), {"visit": tag, "kind": kind, "first": first, "write": write, "off_diagonal": off})
                        ctx.check("context-operator-diagonal-ascending", float(numpy.max(numpy.abs(numpy.diag(ad) - numpy.linalg.eigvalsh(ref)))), tol(ref),
                                  {"what": "eigenvalues", "visit": tag, "kind": kind, "first": first, "write": write})
            finally:
                if how == "protected":
                    A.unprotect_basis()

        with ctx.lib("revisit program", mechanism=None):
            with contextlib.redirect_stdout(out):
                visit(first, "first")
                for w in write:
                    if w == "element":
                        dd = A.data
                        if not numpy.shares_memory(dd, A._data):
                            continue
                        i0, j0 = int(rng.integers(n)), int(rng.integers(n))
                        x = float(rng.normal()) + 0.5
                        dd[i0, j0] += x
                        ref[i0, j0] += x
                        if i0 != j0:
                            dd[j0, i0] += x
                            ref[j0, i0] += x
                    elif w == "add":
                        Cd = rsym(rng, n, "generic")
                        A + qm.Operator(data=Cd.copy())
                        ref = ref + Cd
                    elif w == "assign":
                        ref = rsym(rng, n, "generic")
                        A.data = ref.copy()
                    elif w in ("cutoff", "subtract") and kind == "Hamiltonian" and jr is None:
                        offd = numpy.abs(ref[numpy.triu_indices(n, 1)])
                        c = float(numpy.median(offd)) * 1.0000001 + 1e-12
                        if w == "cutoff":
                            A.remove_cutoff_coupling(c)
                            keep = (numpy.abs(ref) >= c) | numpy.eye(n, dtype=bool)
                            jr = numpy.where(keep, 0.0, ref)
                        else:
                            A.subtract_cutoff_coupling(c)
                            offm = ~numpy.eye(n, dtype=bool)
                            jr = numpy.where(offm, numpy.where(numpy.abs(ref) <= c, ref, numpy.sign(ref) * c), 0.0)
                        ref = ref - jr
                    elif w == "recover" and jr is not None:
                        A.recover_cutoff_coupling()
                        ref = ref + jr
                        jr = None
                    ctx.check("restored-after-exit", float(numpy.max(numpy.abs(numpy.array(A.data) - ref))), tol(ref), {"what": "context operator after write " + w, "kind": kind})
                    visit(str(rng.choice(["read", "unread"])), "after " + w)
                ctx.check("restored-after-exit", float(numpy.max(numpy.abs(numpy.array(A.data) - ref))), tol(ref), {"what": "context operator at the end", "kind": kind})
                ctx.check("restored-after-exit", float(numpy.max(numpy.abs(numpy.array(B.data) - Bd))), tol(Bd), {"what": "other operator at the end"})
        ctx.require("bookkeeping-restored", list(m.basis_stack) == [0] and len(m.basis_transformations) == 1, {"after": "revisit program"})
        ctx.event("revisit_programs")
        ctx.key(("revisit", kind, first, tuple(write), n))
        ctx.nontrivial(True)
        return
    events = []
    stats = {"transformed": False}
    tshort = qr.TimeAxis(0.0, 6, 0.5)

    def mgr_state():
        return (tuple(m.basis_stack), len(m.basis_transformations), tuple(sorted(m.basis_registered)), bool(m._in_eigenbasis_of_context),
                id(m.current_basis_operator))

    shared_sbi = {}

    def create(Stot, kind=None):
        """create an object in the CURRENT basis; returns Obj with its site-basis reference"""
        kind = kind or str(rng.choice(KINDS))
        Sinv = dag(Stot)
        with contextlib.redirect_stdout(out):
            if kind == "Operator":
                d = rng.normal(size=(n, n))
                o = qm.Operator(data=d.copy())
            elif kind == "SelfAdjointOperator":
                d = rsym(rng, n, "generic")
                o = qm.SelfAdjointOperator(data=d.copy())
            elif kind == "Hamiltonian":
                d = rsym(rng, n, str(rng.choice(["generic", "degenerate"])))
                o = qr.Hamiltonian(data=d.copy())
            elif kind == "HamiltonianJR":
                hd = rsym(rng, n, "generic")
                o = qr.Hamiltonian(data=hd.copy())
                offd = numpy.abs(hd[numpy.triu_indices(n, 1)])
                o.remove_cutoff_coupling(float(numpy.median(offd)) * 1.0000001 + 1e-12)
                d = numpy.stack([numpy.array(o._data, copy=True), numpy.array(o.JR, copy=True)], axis=0)
            elif kind in ("ReducedDensityMatrix", "DensityMatrix"):
                a = rng.normal(size=(n, n)) + 1j * rng.normal(size=(n, n))
                d = a @ a.conj().T
                d = d / numpy.trace(d).real
                o = (qr.ReducedDensityMatrix if kind == "ReducedDensityMatrix" else qr.DensityMatrix)(data=d.copy())
            elif kind == "TransitionDipoleMoment":
                d = rng.normal(size=(n, n, 3))
                d = (d + numpy.transpose(d, (1, 0, 2))) / 2
                o = qr.TransitionDipoleMoment(data=d.copy())
            elif kind == "SuperOperator":
                d = rng.normal(size=(n, n, n, n)) + 0j
                o = qm.SuperOperator(data=d.copy())
            elif kind in ("LindbladTensor", "LindbladOperators"):
                if shared_sbi.get("sbi") is not None and rng.random() < 0.5 and numpy.allclose(Stot, numpy.eye(n)):
                    # a second form built from the SAME system-bath interaction object (made at the same level)
                    hh, sbi = shared_sbi["hh"], shared_sbi["sbi"]
                    events.append("(shared-sbi)")
                else:
                    hd = rsym(rng, n, "generic")
                    K = rng.normal(size=(n, n))
                    hh = qr.Hamiltonian(data=hd)
                    sbi = qm.SystemBathInteraction(sys_operators=[qm.Operator(data=K.copy())], rates=[float(rng.uniform(0.05, 0.5))])
                    if numpy.allclose(Stot, numpy.eye(n)):
                        shared_sbi["hh"], shared_sbi["sbi"] = hh, sbi
                o = qm.LindbladForm(hh, sbi, as_operators=(kind == "LindbladOperators"))
                if kind == "LindbladTensor":
                    d = numpy.array(o._data, copy=True)
                else:
                    d = numpy.stack([numpy.array(o._Km), numpy.array(o._Lm), numpy.array(o._Ld)], axis=0).reshape(-1, n, n).astype(complex)
            elif kind == "Evolution":
                a = rng.normal(size=(n, n)) + 1j * rng.normal(size=(n, n))
                r0 = a @ a.conj().T
                r0 = r0 / numpy.trace(r0).real
                hh = qr.Hamiltonian(data=rsym(rng, n, "generic"))
                o = qm.ReducedDensityMatrixPropagator(tshort, hh).propagate(qr.ReducedDensityMatrix(data=r0))
                d = numpy.array(o._data, copy=True)
            elif kind == "EvolutionSuperOperator":
                if n > 4:
                    return create(Stot, "SuperOperator")
                hh = qr.Hamiltonian(data=rsym(rng, n, "generic"))
                K = rng.normal(size=(n, n))
                sbi = qm.SystemBathInteraction(sys_operators=[qm.Operator(data=K.copy())], rates=[float(rng.uniform(0.05, 0.5))])
                o = qm.EvolutionSuperOperator(tshort, hh, qm.LindbladForm(hh, sbi, as_operators=False))
                o.set_dense_dt(2)
                o.calculate(show_progress=False)
                d = numpy.array(o._data, copy=True)
        ref = tr_any(d, Sinv, kind) if not numpy.allclose(Stot, numpy.eye(n)) else d.copy()
        events.append("C:" + kind)
        return Obj(kind, o, numpy.array(ref))

    objs = [create(numpy.eye(n)) for _ in range(case["nobj"])]
    ctxops = []
    for k in range(2):
        d = rsym(rng, n, str(rng.choice(["generic", "generic", "degenerate", "diagonal"])))
        if k == 1 and rng.random() < 0.6:
            if case.get("complex_ctx"):
                # a self-adjoint operator with complex off-diagonal elements: its eigenbasis is reached by a unitary, not an orthogonal matrix
                d = rsym(rng, n, "complex")
            ctxops.append(Obj("SelfAdjointOperator", qm.SelfAdjointOperator(data=d.copy()), d.copy()))
        else:
            ctxops.append(Obj("Hamiltonian", qr.Hamiltonian(data=d.copy()), d.copy()))
    active = []         # context operators whose context is currently entered
    Slevels = [numpy.eye(n)]   # accumulated transformation of every open nesting level
    state = {"step": 0}
    raise_at = int(rng.integers(1, case["steps"] + 1)) if case["exc"] == "harness" else -1
    scale = lambda a: max(float(numpy.max(numpy.abs(a))), 1.0)

    def expected(o, Stot):
        if o.protected_S is not None:
            return tr_any(o.ref, o.protected_S, o.kind)
        return tr_any(o.ref, Stot, o.kind)

    def check_read(o, Stot, level, what="presented-in-context-basis"):
        with ctx.lib("reading managed data", mechanism=None, expect=Boom):
            with contextlib.redirect_stdout(out):
                got = present(o)
        if o.protected_S is None:
            o.lvl = level
        exp = expected(o, Stot)
        ok = got.shape == exp.shape
        ctx.require(what, ok, {"kind": o.kind, "level": level, "what": "shape"})
        if ok:
            ctx.check(what, float(numpy.max(numpy.abs(got - exp))), 1e-10 * scale(exp) * n * n,
                      {"kind": o.kind, "level": level, "protected": o.protected_S is not None, "events": events[-12:]})
        if level > 0 and not numpy.allclose(Stot, numpy.eye(n), atol=1e-9) and o.protected_S is None:
            stats["transformed"] = True

    def body(level, Stot, budget):
        nsteps = int(rng.integers(1, max(2, budget)))
        protected_here = []
        for _ in range(nsteps):
            state["step"] += 1
            if state["step"] == raise_at:
                events.append("RAISE")
                raise Boom("harness")
            if state["step"] > case["steps"]:
                break
            ev = str(rng.choice(["READ", "READ", "WRITE", "CREATE", "SCALARS", "APPLY", "PROTECT", "ENTER", "ENTER", "PROPAGATE", "MODCTX", "AT", "COPY", "COPY", "REINIT"]))
            i = int(rng.integers(0, len(objs)))
            o = objs[i]
            if ev == "READ":
                events.append("R:" + o.kind)
                check_read(o, Stot, level)
            elif ev == "WRITE" and o.kind in ("Operator", "ReducedDensityMatrix", "SuperOperator", "TransitionDipoleMoment", "HamiltonianJR") and o.protected_S is None:
                # the assignment may be the first touch of the object in this context (no read before it)
                events.append("W:" + o.kind)
                cur = expected(o, Stot)
                new = cur * 0.5 + (0.1 if o.kind not in ("ReducedDensityMatrix", "HamiltonianJR") else 0.0)
                with ctx.lib("writing managed data", mechanism=None, expect=Boom):
                    if o.kind == "HamiltonianJR":
                        # only the Hamiltonian matrix is assigned; the remainder coupling stays what it is
                        o.obj.data = numpy.real_if_close(new[0]).copy()
                        new = numpy.stack([new[0], cur[1]], axis=0)
                    else:
                        o.obj.data = new.copy()
                o.ref = tr_any(new, dag(Stot), o.kind)
                check_read(o, Stot, level)
            elif ev == "REINIT" and o.kind == "Evolution" and o.protected_S is None:
                # an evolution object is given a new initial condition (as a program that re-uses it for a second run does), whether or
                # not it has been looked at in this context before
                events.append("REINIT")
                a_ = rng.normal(size=(n, n)) + 1j * rng.normal(size=(n, n))
                r_ = a_ @ a_.conj().T
                r_ = r_ / numpy.trace(r_).real
                if rng.random() < 0.5:
                    check_read(o, Stot, level)
                with ctx.lib("set_initial_condition on an existing evolution", mechanism=None, expect=Boom):
                    o.obj.set_initial_condition(qr.ReducedDensityMatrix(data=r_.copy()))
                new = numpy.zeros_like(numpy.asarray(expected(o, Stot), dtype=complex))
                new[0] = r_
                o.ref = tr_any(new, dag(Stot), o.kind)
                check_read(o, Stot, level)
            elif ev == "CREATE":
                objs.append(create(Stot))
            elif ev == "COPY" and o.protected_S is None and o.kind in COPY_KINDS:
                # a copy is a new managed object with the same content, wherever and whenever it is made (the original may last have been
                # touched at an outer level and the copy may stay untouched until contexts are left)
                import copy as _copy
                events.append("CP:" + o.kind)
                with ctx.lib("copy.copy of a managed object", mechanism=None, expect=Boom):
                    c = _copy.copy(o.obj)
                new = Obj(o.kind, c, numpy.array(o.ref, copy=True))
                objs.append(new)
                if rng.random() < 0.4:
                    check_read(new, Stot, level)
            elif ev == "MODCTX":
                # a context operator is written between two visits of its context (in place or by assignment)
                cands = [x for x in ctxops if x.protected_S is None and not any(x is y for y in active)]
                if cands:
                    A = cands[int(rng.integers(len(cands)))]
                    mode = str(rng.choice(["element", "assign", "cutoff"]))
                    with ctx.lib("writing a context operator (%s)" % mode, mechanism=None, expect=Boom):
                        with contextlib.redirect_stdout(out):
                            if mode == "cutoff" and A.kind == "Hamiltonian" and level == 0 and n > 2:
                                if getattr(A, "jr", None) is None:
                                    offd = numpy.abs(A.ref[numpy.triu_indices(n, 1)])
                                    c = float(numpy.median(offd)) * 1.0000001 + 1e-12
                                    events.append("M:cutoff")
                                    A.obj.remove_cutoff_coupling(c)
                                    keep = (numpy.abs(A.ref) >= c) | numpy.eye(n, dtype=bool)
                                    A.jr = numpy.where(keep, 0.0, A.ref)
                                    A.ref = numpy.where(keep, A.ref, 0.0)
                                else:
                                    events.append("M:recover")
                                    A.obj.recover_cutoff_coupling()
                                    A.ref = A.ref + A.jr
                                    A.jr = None
                            elif mode == "element" and A.kind != "Hamiltonian":
                                dd = A.obj.data
                                A.lvl = level
                                if numpy.shares_memory(dd, A.obj._data):
                                    events.append("M:element")
                                    i0, j0 = int(rng.integers(n)), int(rng.integers(n))
                                    x = float(rng.normal())
                                    cur = tr_op(A.ref, Stot)
                                    dd[i0, j0] += x
                                    cur[i0, j0] += x
                                    if i0 != j0:
                                        dd[j0, i0] += x
                                        cur[j0, i0] += x
                                    A.ref = tr_op(cur, dag(Stot))
                            elif mode == "assign" and getattr(A, "jr", None) is None:
                                events.append("M:assign")
                                cur = tr_op(A.ref, Stot)
                                new = 0.7 * cur + 0.3 * tr_op(rsym(rng, n, "generic"), Stot)
                                new = (new + dag(new)) / 2
                                A.obj.data = new.copy()
                                A.lvl = level
                                A.ref = tr_op(new, dag(Stot))
                    if rng.random() < 0.3:
                        check_read(A, Stot, level)
            elif ev == "AT":
                # a managed object extracted from an evolution: a new object that must not share its fate with the source
                evs = [x for x in objs if x.kind in ("Evolution", "EvolutionSuperOperator") and x.protected_S is None]
                if evs:
                    E = evs[int(rng.integers(len(evs)))]
                    k0 = int(rng.integers(len(tshort.data)))
                    events.append("AT:" + E.kind)
                    with ctx.lib("evolution.at(t)", mechanism=None, expect=Boom):
                        with contextlib.redirect_stdout(out):
                            r = E.obj.at(float(tshort.data[k0]))
                    new = Obj("ReducedDensityMatrix" if E.kind == "Evolution" else "SuperOperator", r, numpy.array(E.ref[k0], copy=True))
                    objs.append(new)
                    for x in ((E, new) if rng.random() < 0.5 else (new, E)):
                        check_read(x, Stot, level)
            elif ev == "SCALARS":
                events.append("S")
                ops = [x for x in objs if x.kind in ("Operator", "SelfAdjointOperator", "Hamiltonian") and x.protected_S is None]
                rhos = [x for x in objs if x.kind in ("ReducedDensityMatrix", "DensityMatrix") and x.protected_S is None]
                for x in ops[:2]:
                    with ctx.lib("trace/spectrum inside a context", mechanism=None, expect=Boom):
                        d = numpy.array(x.obj.data)
                    ctx.check("scalars-invariant", abs(numpy.trace(d) - numpy.trace(x.ref)), 1e-10 * scale(x.ref) * n, {"what": "trace", "kind": x.kind, "level": level})
                    if x.kind != "Operator":
                        ctx.check("scalars-invariant", float(numpy.max(numpy.abs(numpy.linalg.eigvalsh(d) - numpy.linalg.eigvalsh(x.ref)))), 1e-9 * scale(x.ref) * n,
                                  {"what": "spectrum", "kind": x.kind, "level": level})
                    for r in rhos[:2]:
                        with ctx.lib("tr(A rho) inside a context", mechanism=None, expect=Boom):
                            v = numpy.trace(numpy.array(x.obj.data) @ numpy.array(r.obj.data))
                        ctx.check("scalars-invariant", abs(v - numpy.trace(x.ref @ r.ref)), 1e-10 * scale(x.ref) * n, {"what": "tr(A rho)", "level": level})
            elif ev == "APPLY":
                # (operator-form tensors take K^T for the adjoint of their - by construction real - operators: their action is not
                #  exercised while a context with a unitary, non-orthogonal transformation is open, nor for forms whose operators - created inside
                #  such a context - are not real in the site basis)
                # (an operator that has been through such a context is stored as a complex array afterwards; the eigenvectors
                #  numpy returns for it carry arbitrary phases, so the transformation - not the operator - tells)
                cplx_open = float(numpy.max(numpy.abs(numpy.imag(Stot)))) > 1e-12
                ts = [x for x in objs if x.kind in ("SuperOperator", "LindbladTensor", "LindbladOperators") and x.protected_S is None
                      and not (x.kind == "LindbladOperators" and (cplx_open or float(numpy.max(numpy.abs(numpy.imag(x.ref)))) > 1e-12))]
                rhos = [x for x in objs if x.kind in ("ReducedDensityMatrix", "DensityMatrix") and x.protected_S is None]
                if ts and rhos:
                    T, r = ts[int(rng.integers(len(ts)))], rhos[int(rng.integers(len(rhos)))]
                    events.append("A:" + T.kind)
                    with ctx.lib("tensor.apply(rho) inside a context", mechanism=None, expect=Boom):
                        with contextlib.redirect_stdout(out):
                            res = T.obj.apply(r.obj)
                            got = numpy.array(res.data)
                    if T.kind == "LindbladOperators":
                        Km, Lm, Ld = T.ref[0:1], T.ref[1:2], T.ref[2:3]
                        site = numpy.zeros((n, n), dtype=complex)
                        for mm in range(Km.shape[0]):
                            Kd = dag(Km[mm])
                            site += (Km[mm] @ r.ref @ Ld[mm] + Lm[mm] @ r.ref @ Kd - Kd @ Lm[mm] @ r.ref - r.ref @ Ld[mm] @ Km[mm])
                    else:
                        site = numpy.tensordot(T.ref, r.ref)
                    exp = tr_op(site, Stot)
                    ctx.check("scalars-invariant", float(numpy.max(numpy.abs(got - exp))), 1e-9 * scale(exp) * n * n,
                              {"what": "action of a tensor on a state, back-transformed", "tensor": T.kind, "level": level, "complex_context_open": bool(cplx_open),
                               "stored_dtype": str(getattr(T.obj, "_Km", getattr(T.obj, "_data", numpy.zeros(1))).dtype), "Stot_imag": float(numpy.max(numpy.abs(numpy.imag(Stot)))),
                               "active": [(x.kind, bool(numpy.iscomplexobj(x.ref))) for x in active], "ref_imag": float(numpy.max(numpy.abs(numpy.imag(T.ref)))), "state_dtype": str(numpy.asarray(r.obj._data).dtype),
                               "events": events[-8:]})
                    # the result is a managed object created inside: it must survive the exits
                    objs.append(Obj(r.kind, res, site.copy()))
            elif ev == "PROPAGATE":
                hs = [x for x in objs if x.kind == "Hamiltonian" and x.protected_S is None]
                rhos = [x for x in objs if x.kind == "ReducedDensityMatrix" and x.protected_S is None]
                if hs and rhos:
                    H, r = hs[0], rhos[0]
                    events.append("P")
                    with ctx.lib("propagation inside a context", mechanism=None, expect=Boom):
                        with contextlib.redirect_stdout(out):
                            evo = qm.ReducedDensityMatrixPropagator(tshort, H.obj).propagate(r.obj)
                            got = numpy.array(evo.data)
                    import scipy.linalg as sl
                    site = numpy.stack([sl.expm(-1j * H.ref * tt) @ r.ref @ sl.expm(1j * H.ref * tt) for tt in tshort.data])
                    exp = tr_any(site, Stot, "Evolution")
                    x = float(numpy.linalg.norm(H.ref, 2)) * 2 * tshort.step
                    tol = 6 * (x ** 5 / 120.0) * numpy.exp(x) * 4 + 1e-9
                    ctx.check("scalars-invariant", float(numpy.max(numpy.abs(got - exp))), tol * n, {"what": "propagated dynamics", "level": level, "x": x})
                    # the stored trajectory itself (Taylor integrator) is the object's content from now on
                    objs.append(Obj("Evolution", evo, tr_any(got, dag(Stot), "Evolution")))
            elif ev == "PROTECT" and level < case["depth"] and o.protected_S is None and o.kind in ("Operator", "Hamiltonian", "ReducedDensityMatrix", "SelfAdjointOperator"):
                # documented idiom: protect, enter, ..., leave, unprotect
                events.append("PROT:" + o.kind)
                check_read(o, Stot, level)          # make sure it is in the current representation first
                with ctx.lib("protect_basis", mechanism=None, expect=Boom):
                    o.obj.protect_basis()
                o.protected_S = Stot.copy()
                enter(level, Stot, budget // 2 + 1)
                with ctx.lib("unprotect_basis", mechanism=None, expect=Boom):
                    o.obj.unprotect_basis()
                o.protected_S = None
                events.append("UNPROT")
                check_read(o, Stot, level, what="restored-after-exit")
            elif ev == "ENTER" and level < case["depth"]:
                enter(level, Stot, budget // 2 + 1)

    def enter(level, Stot, budget):
        A = ctxops[int(rng.integers(2))]
        if A.protected_S is not None:
            return
        # the library's own idiom: ham.protect_basis(); with eigenbasis_of(ham): ...; ham.unprotect_basis() - also from within
        # another context, whether or not the operator has been looked at there.  The protected operator keeps the representation
        # it had; everything else is presented in its eigenbasis.
        prot_enter = bool(rng.random() < 0.2) and not any(A is y for y in active)
        if prot_enter:
            if rng.random() < 0.5:
                check_read(A, Stot, level)
            with ctx.lib("protect_basis (context operator)", mechanism=None, expect=Boom):
                A.obj.protect_basis()
            A.protected_S = Slevels[min(A.lvl, len(Slevels) - 1)].copy()
            events.append("PROT-ENTER" + ("" if A.lvl == level else "(stored at level %d, entered at %d)" % (A.lvl, level)))
            if A.lvl != level:
                ctx.event("program_protected_operator_entered_from_another_level")
            try:
                return _enter(level, Stot, budget, A, read_op=False)
            finally:
                A.obj.unprotect_basis()
                A.protected_S = None
        A.lvl = level            # __enter__ brings an unprotected context operator to the current basis
        return _enter(level, Stot, budget, A, read_op=True)

    def _enter(level, Stot, budget, A, read_op):
        events.append("ENTER")
        before = mgr_state()
        snap_objs = list(objs)
        entered = {"S": None}
        try:
            with qr.eigenbasis_of(A.obj):
                active.append(A)
                if read_op and rng.random() < 0.6:
                    with ctx.lib("context operator data", mechanism=None, expect=Boom):
                        ad = numpy.array(A.obj.data)
                    A.lvl = level + 1
                    off = float(numpy.max(numpy.abs(ad - numpy.diag(numpy.diag(ad)))))
                    asc = float(max(0.0, -numpy.min(numpy.diff(numpy.diag(ad))))) if n > 1 else 0.0
                    ctx.check("context-operator-diagonal-ascending", max(off, asc), 1e-9 * scale(A.ref) * n, {"level": level + 1, "off_diagonal": off, "descent": asc,
                                                                                                             "kind": A.kind, "events": events[-12:]})
                    ctx.check("context-operator-diagonal-ascending", float(numpy.max(numpy.abs(numpy.diag(ad) - numpy.linalg.eigvalsh(A.ref)))), 1e-9 * scale(A.ref) * n,
                              {"what": "eigenvalues", "level": level + 1, "kind": A.kind, "events": events[-12:]})
                else:
                    events.append("(unread)")
                S = numpy.array(m.basis_transformations[-1])
                ctx.check("presented-in-context-basis", float(numpy.max(numpy.abs(dag(S) @ S - numpy.eye(n)))), 1e-10 * n, {"what": "transformation unitary", "level": level + 1})
                Acur = tr_op(A.ref, Stot)
                dg = dag(S) @ Acur @ S
                ctx.check("presented-in-context-basis", float(numpy.max(numpy.abs(dg - numpy.diag(numpy.diag(dg))))), 1e-9 * scale(A.ref) * n,
                          {"what": "the stacked transformation diagonalises the context operator", "level": level + 1})
                ctx.check("context-operator-diagonal-ascending", float(numpy.max(numpy.abs(numpy.real(numpy.diag(dg)) - numpy.linalg.eigvalsh(A.ref)))), 1e-9 * scale(A.ref) * n,
                          {"what": "the context basis orders the eigenvalues ascending (whether or not the operator was read)", "level": level + 1, "kind": A.kind})
                ctx.require("bookkeeping-restored", m.current_basis_operator is A.obj, {"what": "current_basis_operator inside the context", "level": level + 1})
                entered["S"] = S
                armed = False
                if case["exc"] == "failpoint" and fp is not None and fp.ok and fp.fired is None and rng.random() < 0.5:
                    fp.arm(int(rng.integers(1, 400)))
                    armed = True
                Slevels.append(Stot @ S)
                try:
                    body(level + 1, Stot @ S, budget)
                finally:
                    Slevels.pop()
                    for x in ctxops:
                        if x.protected_S is None or x is A:
                            x.lvl = min(x.lvl, level)
                    if armed:
                        fp.disarm()
            active.pop()
            events.append("EXIT")
        except Boom:
            if active and active[-1] is A:
                active.pop()
            events.append("EXIT!")
            after = mgr_state()
            ctx.require("bookkeeping-restored", after == before, {"after": "exception", "level": level, "before": before[:4], "now": after[:4], "events": events[-14:]})
            raise
        after = mgr_state()
        ctx.require("bookkeeping-restored", after == before, {"after": "exit", "level": level, "before": before[:4], "now": after[:4],
                                                               "same_basis_operator": after[4] == before[4], "events": events[-14:]})
        # everything known before entry is back in the representation of this level
        for o in snap_objs[:6]:
            check_read(o, Stot, level, what="restored-after-exit")

    s0 = mgr_state()
    boom = None
    try:
        body(0, numpy.eye(n), case["steps"])
    except Boom as e:
        boom = str(e)
    finally:
        if fp is not None:
            fp.disarm()
    ctx.note("exception", boom)
    ctx.note("failpoint_at", fp.fired if fp is not None else None)
    if boom == "failpoint":
        ctx.event("failpoints_fired")
    elif boom == "harness":
        ctx.event("harness_exceptions")
    s1 = mgr_state()
    ctx.require("bookkeeping-restored", s1 == s0 and list(m.basis_stack) == [0], {"after": "whole program", "before": s0[:4], "now": s1[:4], "exception": boom, "events": events[-14:]})
    # an object that was protected when the exception hit: undo the harness-side protection
    for o in objs + ctxops:
        if o.protected_S is not None:
            try:
                o.obj.unprotect_basis()
            except Exception:
                pass
            if not numpy.allclose(o.protected_S, numpy.eye(n)):
                o.skip = True
            o.protected_S = None
    for o in objs + ctxops:
        if getattr(o, "skip", False):
            continue
        check_read(o, numpy.eye(n), 0, what="restored-after-exit")
    for e in events:
        if e.startswith("M:") or e.startswith("AT:") or e == "(unread)":
            ctx.event("program_" + e.replace(":", "_").strip("()"))
    # a context operator written in place and its context re-entered without the operator being read in the earlier visit
    seq = [e for e in events if e in ("ENTER", "(unread)", "M:element", "M:cutoff", "M:recover")]
    for a in range(len(seq) - 2):
        if seq[a] == "(unread)" and seq[a + 1].startswith("M:") and seq[a + 2] == "ENTER":
            ctx.event("program_unread-visit_inplace-write_revisit")
            break
    ctx.note("events", events[:60])
    prof = "".join("(" if e == "ENTER" else (")" if e.startswith("EXIT") else "") for e in events)
    ctx.key((tuple(e.split(":")[0] + (":" + e.split(":")[1][:4] if ":" in e else "") for e in events), prof, boom))
    ctx.nontrivial(stats["transformed"])
