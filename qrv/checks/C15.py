"""C15  Propagation results are functions of their inputs only.

Random histories of tensor-construction, propagate and calculate calls are run
on SHARED system / Hamiltonian / system-bath / tensor / propagator / hierarchy
/ state objects.  Before and after every call the observable state of every
shared input object is snapshotted (purity monitor); the result of every call
is memoised under its call signature and any later call with the same
signature must return the same result, whatever was computed in between.
"""
import io
import contextlib
import numpy
from qrv import build, sentinels
from qrv.build import r3

LEVEL = "exploration"
RULE = ("histories of 6-16 calls on shared objects of one aggregate (2-3 sites, overdamped baths) drawn from: get_RelaxationTensor for 9 (theory, option) "
        "combinations, get_ReducedDensityMatrixPropagator, propagate on shared propagators with 3 shared initial states and 2 expansion orders, "
        "EvolutionSuperOperator.calculate / calculate_next, StateVectorPropagator.propagate, PopulationPropagator.propagate, "
        "KTHierarchyPropagator.propagate (free_hierarchy on/off) on a shared hierarchy, AbsSpectrumCalculator.calculate; propagations are also called inside eigenbasis_of(H) (time-independent and time-dependent Redfield); every history contains at least "
        "two repetitions of an earlier call. distinct = the sequence of call kinds; non-trivial iff at least one repeated call was separated from its first "
        "occurrence by a different call on the same shared objects.")
RULE = RULE + " Round-6 workloads: evolution superoperators (all-at-once and step by step) also over the operator-form tensor that a propagator shares."
RULE = RULE + " Round-7 workloads: histories include propagations driven by an array field (time-independent and time-dependent tensor)."
ASSUMPTIONS = ["caches the library adds lazily (correlation-function integrals, splines, has_system_bath_coupling flags) and the working memory of a hierarchy "
               "(its auxiliary operators) are not 'the objects passed in'; purity is judged on Hamiltonian data/RWA/remainder coupling/basis flags, "
               "system-bath operators, rates and correlation functions, tensor data or operator components, states, time axes and the hierarchy description",
               "propagate(rho, Nref=k) is documented to set the refinement: the propagator's Nref at entry is part of the call signature"]
MIN_NONTRIVIAL = {"quick": 30, "thorough": 250}
REQUIRED_CLAUSES = ["inputs-unchanged", "repeat==first"]
TIMEOUT = {"quick": 900, "thorough": 3400}

KINDS = ["tensor:stR", "tensor:stR-ops", "tensor:stR-sec", "tensor:stR-TD", "tensor:stF", "tensor:stF-TD", "tensor:cRF", "tensor:cRF-TD", "tensor:Lf",
         "tensor:neF", "tensor:neF-TD",
         "getprop:stR", "getprop:stF", "getprop:cRF", "getprop:neF-TD",
         "prop:A:0", "prop:A:1", "prop:A:2", "prop:B:0", "prop:B:1", "prop:A:0:6", "prop:B:2:2",
         "prop:A:0:4:n2", "prop:A:1:4:n3", "prop:B:0:4:n2", "prop:A:0:4:n2", "prop:B:1:6:n2",
         "prop:N:0", "prop:N:1", "prop:N:2", "prop:N2:0", "prop:N2:1", "prop:T:0", "prop:T:1", "prop:T2:1", "prop:E:0", "prop:E:1", "prop:ET:0", "prop:ET:1", "prop:ET:0",
         "eU:calc", "eU:next", "eU:calcB", "eU:nextB", "sv:0", "sv:1", "pop", "pop:U", "pop:corr", "pop:corr", "pop", "heom:0", "heom:1", "heom:free", "abs"]


def gen_cases(tier, rng):
    cases = []
    n = 40 if tier == "quick" else 300
    for i in range(n):
        N = int(rng.integers(2, 4))
        s = build.gen_system(rng, N=N, Nt=int(rng.integers(80, 160)), dt=1.0, shared_bath=False, lam=(10.0, 100.0), tau=(30.0, 120.0), jmax=200.0)
        for b in s["bath"]:
            b["ftype"] = "OverdampedBrownian-HighTemperature" if rng.random() < 0.5 else "OverdampedBrownian"
        L = int(rng.integers(6, 17))
        hist = [str(rng.choice(KINDS)) for _ in range(L)]
        # at least two repetitions of earlier calls, not adjacent
        for _ in range(2):
            j = int(rng.integers(0, max(1, L - 3)))
            k = int(rng.integers(j + 2, L)) if j + 2 < L else L - 1
            hist[k] = hist[j]
        J = numpy.abs(numpy.triu(numpy.array(s["J"])))
        nz = numpy.unique(J[J > 0])
        # never exactly on a coupling (a cut-off equal to |J| is a rounding knife-edge: in-place basis round trips move J by an ulp)
        jc = r3(0.5 * (nz[0] + nz[-1])) if len(nz) >= 2 else (r3(1.5 * nz[0]) if len(nz) == 1 else 10.0)
        cases.append({"cls": "history", "sys": s, "hist": hist, "jcut_cm": jc, "seed": int(rng.integers(1 << 30)), "cost": L})
    return cases


def arr(x):
    return numpy.array(x, copy=True)


def run_case(case, ctx):
    import quantarhei as qr
    from quantarhei import qm
    from quantarhei.qm.propagators.svpropagator import StateVectorPropagator
    from quantarhei.qm.propagators.poppropagator import PopulationPropagator
    from quantarhei.qm.liouvillespace.heom import KTHierarchy, KTHierarchyPropagator
    rng = numpy.random.default_rng(case["seed"])
    desc = case["sys"]
    out = io.StringIO()
    CM = 1.8836515673088532e-4
    with ctx.lib("shared objects", mechanism=None):
        with contextlib.redirect_stdout(out):
            agg, t, cfs = build.make_aggregate(desc)
            ham = agg.get_Hamiltonian()
            sbi = agg.get_SystemBathInteraction()
            dim = ham.dim
            states = []
            for k in range(3):
                r0 = numpy.zeros((dim, dim), dtype=complex)
                r0[1:, 1:] = build.random_state(rng, dim - 1, kind=["mixed", "pure", "populations"][k])
                states.append(qr.ReducedDensityMatrix(data=r0))
            psis = []
            for k in range(2):
                v = rng.normal(size=dim) + 1j * rng.normal(size=dim)
                psis.append(qr.StateVector(data=v / numpy.linalg.norm(v)))
            tshort = qr.TimeAxis(0.0, 12, 2.0)
            RA, hamA = agg.get_RelaxationTensor(t, relaxation_theory="stR")
            propA = qm.ReducedDensityMatrixPropagator(tshort, hamA, RA)
            RB, hamB = agg.get_RelaxationTensor(t, relaxation_theory="stR", as_operators=True)
            propB = qm.ReducedDensityMatrixPropagator(tshort, hamB, RB)
            # time-dependent theories: one tensor object shared by two propagators (non-equilibrium Foerster carries an
            # inhomogeneous term computed from the initial state on every run; TD Redfield is propagated on the bath's axis)
            RN, hamN = agg.get_RelaxationTensor(t, relaxation_theory="neF", time_dependent=True)
            propN = qm.ReducedDensityMatrixPropagator(t, hamN, RN)
            propN2 = qm.ReducedDensityMatrixPropagator(t, hamN, RN)
            RT, hamT = agg.get_RelaxationTensor(t, relaxation_theory="stR", time_dependent=True)
            propT = qm.ReducedDensityMatrixPropagator(t, hamT, RT)
            propT2 = qm.ReducedDensityMatrixPropagator(t, hamT, RT)
            # propagation driven by a field given as an array on the propagation axis (time-independent and time-dependent tensor)
            DDf = agg.get_TransitionDipoleMoment()
            EEs = 0.05 * numpy.exp(-((numpy.array(tshort.data) - 10.0) / 5.0) ** 2)
            EEt = 0.05 * numpy.exp(-((numpy.array(t.data) - 40.0) / 15.0) ** 2)
            propE = qm.ReducedDensityMatrixPropagator(tshort, hamA, RA, Efield=EEs, Trdip=DDf)
            propET = qm.ReducedDensityMatrixPropagator(t, hamT, RT, Efield=EEt, Trdip=DDf)
            eU = qr.EvolutionSuperOperator(time=qr.TimeAxis(0.0, 6, 4.0), ham=hamA, relt=RA)
            eU.set_dense_dt(2)
            eJ = qr.EvolutionSuperOperator(time=qr.TimeAxis(0.0, 6, 4.0), ham=hamA, relt=RA, mode="jit")
            eJ.set_dense_dt(2)
            # evolution superoperators over the operator-form tensor that propagator B shares
            eUB = qr.EvolutionSuperOperator(time=qr.TimeAxis(0.0, 6, 4.0), ham=hamB, relt=RB)
            eUB.set_dense_dt(2)
            eJB = qr.EvolutionSuperOperator(time=qr.TimeAxis(0.0, 6, 4.0), ham=hamB, relt=RB, mode="jit")
            eJB.set_dense_dt(2)
            svp = StateVectorPropagator(qr.TimeAxis(0.0, 15, 0.5), ham)
            Kpop = numpy.array([[-0.02, 0.005, 0.0], [0.02, -0.015, 0.01], [0.0, 0.01, -0.01]])
            popp = PopulationPropagator(qr.TimeAxis(0.0, 30, 1.0), Kpop)
            # hierarchy on its own aggregate with high-temperature baths (shared Hamiltonian/sbi objects of that aggregate)
            dh = dict(desc, Nt=25, bath=[dict(b, ftype="OverdampedBrownian-HighTemperature") for b in desc["bath"]])
            aggh, th, _c = build.make_aggregate(dh)
            hamh = aggh.get_Hamiltonian()
            sbih = aggh.get_SystemBathInteraction()
            hy = KTHierarchy(hamh, sbih, 2)
            hprop = KTHierarchyPropagator(th, hy)
            lops = [qm.Operator(data=numpy.eye(dim)[:, [1]] @ numpy.eye(dim)[[2 % dim if dim > 2 else 1], :])]
            lsbi = qm.SystemBathInteraction(sys_operators=lops, rates=[1.0 / 150.0])

    shared = {"ham": ham, "sbi": sbi, "t": t, "hamA": hamA, "RA": RA, "hamB": hamB, "RB": RB, "tshort": tshort, "hamN": hamN, "RN.data": RN.data, "hamT": hamT, "RT": RT,
              "rho0": states[0], "rho1": states[1], "rho2": states[2], "Efield_short": EEs, "Efield_long": EEt, "dipole_operator": DDf, "psi0": psis[0], "psi1": psis[1],
              "hamh": hamh, "sbih": sbih, "hierarchy": hy, "th": th, "Kpop": Kpop, "lsbi": lsbi}

    def snap_all():
        d = {}
        for k, o in shared.items():
            s = sentinels.snapshot(o)
            if k == "hierarchy":
                s.pop("ado", None)        # working memory, not description
            d[k] = s
        d["agg.resonance_coupling"] = {"array": arr(agg.resonance_coupling)}
        return d

    def compare(before, after, callname, step):
        bad = []
        for k in before:
            diffs = sentinels.diff_snapshots(before[k], after[k])
            if diffs:
                bad.append((k, diffs[:3]))
        ctx.require("inputs-unchanged", not bad, {"call": callname, "step": step, "history": case["hist"], "changed": [(k, [list(x) for x in d]) for k, d in bad][:4]},
                    mechanism="input-changed-by:" + callname.split(":")[0] + (":" + callname.split(":")[1] if callname.startswith("tensor") else ""))

    def tensor_result(R):
        if getattr(R, "as_operators", False):
            return numpy.concatenate([arr(R.Km).ravel().astype(complex), arr(R.Lm).ravel(), arr(R.Ld).ravel()])
        return arr(R.data).ravel()

    def do(kind):
        """returns (signature, result array)"""
        p = kind.split(":")
        with contextlib.redirect_stdout(out):
            if p[0] == "tensor" or p[0] == "getprop":
                lab = p[1]
                th_ = {"stR": "stR", "stR-ops": "stR", "stR-sec": "stR", "stR-TD": "stR", "stF": "stF", "stF-TD": "stF", "cRF": "cRF", "cRF-TD": "cRF", "Lf": "Lindblad_form",
                       "neF": "neF", "neF-TD": "neF"}[lab]
                kw = {}
                if "ops" in lab:
                    kw["as_operators"] = True
                if "sec" in lab:
                    kw["secular_relaxation"] = True
                if "TD" in lab:
                    kw["time_dependent"] = True
                if "cRF" in lab:
                    kw["coupling_cutoff"] = case["jcut_cm"] * CM
                if lab == "Lf":
                    # Lindblad form needs its own system-bath object on the aggregate; restore the bath one afterwards
                    agg.set_SystemBathInteraction(lsbi)
                    try:
                        R, h = agg.get_RelaxationTensor(t, relaxation_theory=th_, **kw)
                    finally:
                        agg.set_SystemBathInteraction(sbi)
                    return kind, tensor_result(R)
                if p[0] == "tensor":
                    R, h = agg.get_RelaxationTensor(t, relaxation_theory=th_, **kw)
                    return kind, numpy.concatenate([tensor_result(R), arr(h.data).ravel().astype(complex)])
                pr = agg.get_ReducedDensityMatrixPropagator(t if "TD" in lab else tshort, relaxation_theory=th_, **kw)
                ev = pr.propagate(states[0])
                return kind, arr(ev.data).ravel()
            if p[0] == "prop":
                pr = {"A": propA, "B": propB, "N": propN, "N2": propN2, "T": propT, "T2": propT2, "E": propE, "ET": propET}[p[1]]
                order = int(p[3]) if len(p) > 3 else 4
                nref_arg = int(p[4][1:]) if len(p) > 4 else None
                # two propagators sharing one tensor must give the same result for the same state
                # (the step refinement is sticky by design: a call without Nref uses the last one set; it is part of the signature)
                sig = "prop:" + p[1].rstrip("2") + ":" + ":".join(p[2:4]) + "|Nref=%d" % (nref_arg if nref_arg is not None else pr.Nref)
                # the same call made inside the eigenbasis context of the propagator's Hamiltonian is the same computation:
                # its result, read after the context is left, is the same trajectory
                inside = (p[1] in ("A", "B", "T", "T2")) and bool(rng.random() < 0.35)
                if inside:
                    ctx.event("calls_inside_a_basis_context")
                    with qr.eigenbasis_of(pr.Hamiltonian):
                        ev = pr.propagate(states[int(p[2])], method="short-exp-%d" % order, **({"Nref": nref_arg} if nref_arg else {}))
                else:
                    ev = pr.propagate(states[int(p[2])], method="short-exp-%d" % order, **({"Nref": nref_arg} if nref_arg else {}))
                return sig, arr(ev.data).ravel()
            if kind == "eU:calc":
                eU.calculate(show_progress=False)
                return kind, arr(eU.data).ravel()
            if kind == "eU:calcB":
                eUB.calculate(show_progress=False)
                return kind, arr(eUB.data).ravel()
            if kind == "eU:nextB":
                sig = "eU:nextB|now=%d" % eJB.now
                if eJB.now >= eJB.time.length - 1:
                    return None, None
                eJB.calculate_next()
                return sig, arr(eJB.data).ravel()
            if kind == "eU:next":
                sig = "eU:next|now=%d" % eJ.now
                if eJ.now >= eJ.time.length - 1:
                    return None, None
                eJ.calculate_next()
                return sig, arr(eJ.data).ravel()
            if p[0] == "sv":
                ev = svp.propagate(psis[int(p[1])])
                return kind, arr(ev.data).ravel()
            if kind == "pop":
                return kind, arr(popp.propagate(numpy.array([1.0, 0.0, 0.0]))).ravel()
            if kind == "pop:U":
                return kind, arr(popp.get_PropagationMatrix(qr.TimeAxis(0.0, 6, 5.0))).ravel()
            if kind == "pop:corr":
                Uc, corr = popp.get_PropagationMatrix(qr.TimeAxis(0.0, 6, 5.0), corrections=2, exact=True)
                return kind, numpy.concatenate([arr(Uc).ravel()] + [arr(c).ravel() for c in corr])
            if p[0] == "heom":
                r0 = qr.ReducedDensityMatrix(data=arr(states[0 if p[1] != "1" else 1].data))
                ev = hprop.propagate(r0, free_hierarchy=(p[1] == "free"))
                return kind, arr(ev.data).ravel()
            if kind == "abs":
                calc = qr.AbsSpectrumCalculator(t, agg)
                calc.bootstrap()
                sp = calc.calculate()
                return kind, arr(sp.data).ravel()
        raise ValueError(kind)

    memo = {}
    first_at = {}
    sig_seq = []
    separated = False
    for step, kind in enumerate(case["hist"]):
        before = snap_all()
        try:
            with ctx.lib("call " + kind, mechanism=None):
                sig, res = do(kind)
        finally:
            after = snap_all()
            compare(before, after, kind, step)
        if sig is None:
            continue
        sig_seq.append(sig.split("|")[0])
        ctx.event("calls")
        if sig in memo:
            ref = memo[sig]
            ok = ref.shape == res.shape
            sc = max(float(numpy.max(numpy.abs(ref))), 1e-300) if ref.size else 1.0
            r = float(numpy.max(numpy.abs(ref - res))) if ok and ref.size else (0.0 if ok else float("inf"))
            ctx.check("repeat==first", r, 1e-12 * sc, {"call": sig, "step": step, "first_at": first_at[sig], "history": case["hist"], "scale": sc},
                      mechanism="repeat-differs:" + sig.split(":")[0] + (":" + sig.split(":")[1] if sig.startswith(("tensor", "heom")) else ""))
            ctx.event("repeated_calls")
            if step - first_at[sig] > 1:
                separated = True
        else:
            memo[sig] = res
            first_at[sig] = step
        if len(ctx.violations) > 6:
            break
    ctx.key(tuple(sig_seq))
    ctx.nontrivial(separated)
