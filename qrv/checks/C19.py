"""C19  Two-dimensional response storage conserves what was added.

A lock-step shadow model (the list of accepted additions) is driven by the same
operation history as the real TwoDResponse.  After every operation all
readable views and get_all_data() are compared with the sums of the additions
that belong to them; operations the documentation declares inadmissible must
be refused, and every refused operation must leave all views unchanged.
"""
import itertools
import numpy
from qrv.build import r3

LEVEL = "exploration"
RULE = ("random histories of 1-40 operations over {add at each level with level-appropriate / wrong dtypes, valid / duplicate / missing / "
        "superfluous tags, set_resolution (valid, increasing, unknown, 2->1), reads of every view, get_TwoDSpectrum, get_all_data}; "
        "exhaustive histories up to length 3 (thorough 4) over a 14-symbol alphabet; arrays real/complex, 1x1 .. 16x12. "
        "distinct = the operation-kind sequence (level, dtype class, tag class, accepted/refused); non-trivial iff at least two additions "
        "were accepted or one addition was accepted and the resolution was reduced.")
RULE = RULE + " Round-7 workloads: tags include pairs with the same string form (1, '1', 1.0; 0, '0')."
ASSUMPTIONS = ["the caller does not mutate an array after adding it (the object may keep a reference)",
               "views of never-initialised storage read as zero (None or an all-zero placeholder)",
               "whether an addition at a level coarser than the current storage level is accepted is left to the implementation; "
               "if accepted it must be conserved, if refused it must change nothing"]
MIN_NONTRIVIAL = {"quick": 300, "thorough": 3000}
REQUIRED_CLAUSES = ["total==sum-of-additions", "view==sum-of-its-additions", "refused-op-changes-nothing", "inadmissible-refused"]
EPS = numpy.finfo(float).eps

PTYPES = ["R1g", "R2g", "R3g", "R4g", "R1fs", "R2fs", "R3fs", "R4fs"]
PROC = {"GSB": ["R1g", "R2g"], "SE": ["R3g", "R4g"], "ESA": ["R1fs", "R2fs"], "DC": ["R3fs", "R4fs"]}
SIG_REPH, SIG_NONR, SIG_DC, TOTAL = "rephasing_2D_signal", "nonrephasing_2D_signal", "double_coherence_signal", "total_2D_signal"
SIGS = {SIG_REPH: ["R2g", "R3g", "R1fs"], SIG_NONR: ["R1g", "R4g", "R2fs"], SIG_DC: ["R3fs", "R4fs"]}
LEVELS = ["off", "signals", "processes", "types", "pathways"]
LNUM = {n: i for i, n in enumerate(LEVELS)}
DTYPES = {"pathways": PTYPES, "types": PTYPES, "processes": list(PROC), "signals": list(SIGS), "off": [TOTAL]}
CONV_OK = {(4, 3), (4, 2), (4, 1), (4, 0), (3, 2), (3, 1), (3, 0), (2, 0), (1, 0)}

ALPHABET = [
    ["add", "pathways", "R1g", "t0"], ["add", "pathways", "R2g", "t0"], ["add", "pathways", "R1g", "t1"],
    ["add", "types", "R1g", None], ["add", "types", "R3g", None], ["add", "processes", "GSB", None],
    ["add", "signals", SIG_REPH, None], ["add", "off", TOTAL, None],
    ["setres", "types"], ["setres", "processes"], ["setres", "signals"], ["setres", "off"],
    ["add", "pathways", "R1g", None], ["add", "types", "R1g", "t9"],
]


# pathway tags are arbitrary hashable labels: strings (also the empty one) and integers counted from zero are what users write
TAGPOOL = ["t0", "t1", "t2", 0, 1, "", "1", "0", 1.0]


def pick_tag(rng, n=len(TAGPOOL)):
    t = TAGPOOL[int(rng.integers(0, n))]
    return t


def gen_cases(tier, rng):
    cases = []
    nr = 260 if tier == "quick" else 2500
    for i in range(nr):
        L = int(rng.integers(1, 41))
        ops = []
        for _ in range(L):
            u = rng.random()
            if u < 0.62:
                lvl = str(rng.choice(LEVELS + ["pathways", "types"]))
                if rng.random() < 0.12:
                    # dtype from a wrong level
                    other = str(rng.choice([x for x in LEVELS if x != lvl]))
                    dt = str(rng.choice(DTYPES[other]))
                else:
                    dt = str(rng.choice(DTYPES[lvl]))
                if lvl == "pathways":
                    tag = None if rng.random() < 0.07 else pick_tag(rng)
                else:
                    tag = pick_tag(rng) if rng.random() < 0.07 else None
                if rng.random() < 0.1:
                    lvl_arg = None        # resolution=None: use the storage's own
                    ops.append(["add", lvl_arg, dt, tag])
                else:
                    ops.append(["add", lvl, dt, tag])
            elif u < 0.80:
                tgt = str(rng.choice(LEVELS + ["bogus"])) if rng.random() < 0.9 else "bogus"
                ops.append(["setres", tgt])
            elif u < 0.9:
                ops.append(["spectrum", str(rng.choice([TOTAL, SIG_REPH, SIG_NONR]))])
            else:
                ops.append(["alldata"])
        cases.append({"cls": "random-history", "ops": ops, "nx": int(rng.integers(1, 17)), "ny": int(rng.integers(1, 13)),
                      "complex": bool(rng.random() < 0.7), "seed": int(rng.integers(1 << 30)), "cost": 1 + L / 10})
    # accumulation at ONE storage level with array objects re-used by the caller (the package's own calculators add one zero array
    # to several signals and accumulate on top), reads in between, then admissible reductions
    for i in range(60 if tier == "quick" else 500):
        lvl = LEVELS[i % len(LEVELS)]
        ops = []
        for _ in range(int(rng.integers(4, 22))):
            u = rng.random()
            if u < 0.75:
                dt = str(rng.choice(DTYPES[lvl]))
                tag = pick_tag(rng, 6 if len(cases) % 2 else 3) if lvl == "pathways" else None
                ops.append(["add", lvl, dt, tag])
            elif u < 0.9:
                ops.append(["spectrum", str(rng.choice([TOTAL, SIG_REPH, SIG_NONR]))])
            else:
                ops.append(["alldata"])
        cur = LNUM[lvl]
        while cur > 0 and rng.random() < 0.8:
            nxt = [b for (a, b) in CONV_OK if a == cur]
            cur = int(rng.choice(nxt))
            ops.append(["setres", LEVELS[cur]])
            ops.append(["alldata"])
            ops.append(["spectrum", str(rng.choice([TOTAL, SIG_REPH, SIG_NONR]))])
            if rng.random() < 0.5:
                ops.append(["add", LEVELS[cur], str(rng.choice(DTYPES[LEVELS[cur]])), ("t0" if LEVELS[cur] == "pathways" else None)])
                ops.append(["alldata"])
        cases.append({"cls": "accumulate-shared-arrays", "ops": ops, "nx": int(rng.integers(1, 9)), "ny": int(rng.integers(1, 9)),
                      "complex": bool(rng.random() < 0.5), "seed": int(rng.integers(1 << 30)), "cost": 1 + len(ops) / 10})
    # exhaustive short histories, chunked
    maxlen = 3 if tier == "quick" else 4
    allh = []
    for L in range(1, maxlen + 1):
        allh.extend(itertools.product(range(len(ALPHABET)), repeat=L))
    chunk = 400
    for a in range(0, len(allh), chunk):
        cases.append({"cls": "exhaustive-short", "hist": [list(h) for h in allh[a:a + chunk]], "cost": 6})
    return cases


EXHAUSTIVE = {"quick": False, "thorough": False}


# ----------------------------------------------------------------------
class Shadow:
    def __init__(self, shape):
        self.shape = shape
        self.adds = []            # (level, dtype, tag, data)

    def zero(self):
        return numpy.zeros(self.shape, dtype=complex)

    def total(self):
        z = self.zero()
        for a in self.adds:
            z = z + a[3]
        return z

    def view(self, kind, sel, tag=None):
        """returns (expected array, determinate?)"""
        z = self.zero()
        ok = True
        for (lvl, dt, tg, data) in self.adds:
            if kind == "signal":
                if lvl in ("pathways", "types"):
                    if dt in SIGS[sel]:
                        z = z + data
                elif lvl == "signals":
                    if dt == sel:
                        z = z + data
                else:
                    ok = False
            elif kind == "process":
                if lvl in ("pathways", "types"):
                    if dt in PROC[sel]:
                        z = z + data
                elif lvl == "processes":
                    if dt == sel:
                        z = z + data
                else:
                    ok = False
            elif kind == "type":
                if lvl in ("pathways", "types"):
                    if dt == sel:
                        z = z + data
                else:
                    ok = False
            elif kind == "pathway":
                if lvl == "pathways":
                    if dt == sel and tg == tag:
                        z = z + data
                elif lvl == "types":
                    pass          # untagged type-level data are not a pathway
                else:
                    ok = False
        return z, ok


def readable_views(res_name, shadow):
    r = LNUM[res_name]
    v = [("total", TOTAL, None)]
    if r in (4, 3, 1):
        v += [("signal", s, None) for s in SIGS]
    if r in (4, 3, 2):
        v += [("process", p, None) for p in PROC]
    if r in (4, 3):
        v += [("type", t, None) for t in PTYPES]
    if r == 4:
        seen = set()
        for (lvl, dt, tg, data) in shadow.adds:
            if lvl == "pathways" and (dt, tg) not in seen:
                seen.add((dt, tg))
                v.append(("pathway", dt, tg))
    return v


def read_view(tw, kind, sel, tag):
    if kind == "pathway":
        tw.set_data_flag([sel, tag])
    else:
        tw.set_data_flag(sel)
    return tw.d__data


def as_array(d, shape):
    """None / all-zero placeholder read as zero"""
    if d is None:
        return numpy.zeros(shape, dtype=complex)
    d = numpy.asarray(d)
    if d.shape != shape:
        if not numpy.any(d):
            return numpy.zeros(shape, dtype=complex)
        return None
    return d


def snapshot_views(tw, shadow):
    out = {}
    if not shadow.adds:
        # nothing has been stored yet: there is no stored data a refused
        # operation could change (views of virgin storage are out of scope)
        return out
    for (kind, sel, tag) in readable_views(tw.storage_resolution, shadow):
        try:
            d = read_view(tw, kind, sel, tag)
            out[(kind, sel, tag)] = None if d is None else numpy.array(d, copy=True)
        except Exception as e:
            out[(kind, sel, tag)] = "EXC:" + type(e).__name__
    return out


def same_views(a, b):
    if set(a) != set(b):
        return False, "set of readable views changed"
    for k in a:
        x, y = a[k], b[k]
        if isinstance(x, str) or isinstance(y, str):
            if not (isinstance(x, str) and isinstance(y, str) and x == y):
                return False, "view %r: %r -> %r" % (k, x if isinstance(x, str) else "array", y if isinstance(y, str) else "array")
            continue
        if (x is None) != (y is None):
            # None and an all-zero placeholder are the same reading
            z = y if x is None else x
            if numpy.any(z):
                return False, "view %r changed" % (k,)
            continue
        if x is None:
            continue
        if x.shape != y.shape or not numpy.array_equal(x, y):
            return False, "view %r changed" % (k,)
    return True, None


def classify_add(tw, lvl, dt, tag, shadow):
    """'must_refuse', 'must_accept' or 'either' according to the documented rules"""
    init = bool(tw.storage_initialized)
    cur = tw.storage_resolution
    eff = lvl if lvl is not None else cur
    if eff not in LNUM:
        return "must_refuse", eff
    if init and lvl is not None and LNUM[lvl] > LNUM[cur]:
        return "must_refuse", eff
    if dt not in DTYPES[eff]:
        return "must_refuse", eff
    if eff == "pathways" and tag is None:
        return "must_refuse", eff
    if eff != "pathways" and tag is not None:
        return "must_refuse", eff
    if eff == "pathways":
        for (l2, d2, t2, _) in shadow.adds:
            if l2 == "pathways" and d2 == dt and t2 == tag:
                return "must_refuse", eff       # tags are unique per type
    if (not init) or LNUM[eff] == LNUM[cur]:
        return "must_accept", eff
    return "either", eff


def run_history(ctx, ops, nx, ny, cplx, rng, label, reuse=0.35, p_byref=0.75):
    import quantarhei as qr
    from quantarhei.spectroscopy.twod2 import TwoDResponse
    shape = (nx, ny)
    tw = TwoDResponse()
    tw.set_axis_1(qr.FrequencyAxis(0.0, nx, 1.0))
    tw.set_axis_3(qr.FrequencyAxis(0.0, ny, 1.0))
    sh = Shadow(shape)
    sig = []
    n_acc = 0
    reduced = False
    tol_scale = 0.0
    pool = []
    for k, op in enumerate(ops):
        det = {"history": label, "step": k, "op": op, "ops_so_far": [o[:4] for o in ops[:k + 1]][-8:],
               "storage_resolution": tw.storage_resolution}
        if op[0] == "add":
            _, lvl, dt, tag = op
            # the caller may hand the same array object to several additions and keeps using it afterwards:
            # what was added is the VALUE at the time of the call
            if pool and rng.random() < reuse:
                arg = pool[int(rng.integers(len(pool)))]
                ctx.event("adds_reusing_an_array_object")
            else:
                arg = rng.normal(size=shape)
                if cplx:
                    arg = arg + 1j * rng.normal(size=shape)
                if rng.random() < 0.7:
                    pool.append(arg)
            data = numpy.array(arg, copy=True)
            byref = bool(rng.random() < p_byref)
            verdict, eff = classify_add(tw, lvl, dt, tag, sh)
            before = snapshot_views(tw, sh)
            res_before = tw.storage_resolution
            try:
                tw._add_data(arg if byref else numpy.array(data, copy=True), resolution=lvl, dtype=dt, tag=tag)
                accepted = True
            except Exception:
                accepted = False
            if accepted:
                ctx.require("inadmissible-refused", verdict != "must_refuse", dict(det, why="documented as inadmissible but accepted"))
                if verdict == "must_refuse":
                    return
                sh.adds.append((eff, dt, tag, numpy.array(data, dtype=complex)))
                n_acc += 1
                tol_scale += float(numpy.max(numpy.abs(data)))
            else:
                ctx.require("admissible-accepted", verdict != "must_accept", dict(det, why="admissible addition refused"))
                after = snapshot_views(tw, sh)
                ok, why = same_views(before, after)
                ctx.require("refused-op-changes-nothing", ok, dict(det, why=why))
                if verdict == "must_accept":
                    return
            sig.append(("add", eff, "ok-dtype" if dt in DTYPES.get(eff, []) else "bad-dtype",
                        "tag" if tag is not None else "notag", accepted))
        elif op[0] == "setres":
            tgt = op[1]
            cur = LNUM[tw.storage_resolution]
            if tgt not in LNUM:
                verdict = "must_refuse"
            elif LNUM[tgt] > cur:
                verdict = "must_refuse"
            elif LNUM[tgt] == cur:
                verdict = "must_accept"
            elif (cur, LNUM[tgt]) in CONV_OK:
                verdict = "must_accept"
            else:
                verdict = "must_refuse"
            before = snapshot_views(tw, sh)
            try:
                tw.set_resolution(tgt)
                accepted = True
            except Exception:
                accepted = False
            if accepted:
                ctx.require("inadmissible-refused", verdict != "must_refuse", dict(det, why="inadmissible resolution change accepted"))
                if verdict == "must_refuse":
                    return
                ctx.require("resolution-set", tw.storage_resolution == tgt, dict(det, got=tw.storage_resolution))
                if LNUM[tgt] < cur:
                    reduced = True
            else:
                ctx.require("admissible-accepted", verdict != "must_accept", dict(det, why="admissible resolution change refused"))
                ok, why = same_views(before, snapshot_views(tw, sh))
                ctx.require("refused-op-changes-nothing", ok, dict(det, why=why))
                if verdict == "must_accept":
                    return
            sig.append(("setres", tgt, accepted))
        elif op[0] == "spectrum":
            flag = op[1]
            r = LNUM[tw.storage_resolution]
            if tw.storage_initialized and sh.adds and (flag == TOTAL or r in (4, 3, 1)):
                exp, det_ok = (sh.total(), True) if flag == TOTAL else sh.view("signal", flag)
                # a view nothing was added to reads as None; a spectrum object
                # cannot be made of it and none is demanded
                if det_ok and numpy.any(exp):
                    try:
                        sp = tw.get_TwoDSpectrum(flag)
                        got = as_array(sp.data, shape)
                    except Exception as e:
                        got = None
                        det = dict(det, exc=repr(e)[:200])
                    if got is None:
                        ctx.require("view==sum-of-its-additions", False, dict(det, why="get_TwoDSpectrum failed or returned a wrong shape"))
                    else:
                        ctx.check("view==sum-of-its-additions", float(numpy.max(numpy.abs(got - exp))),
                                  8 * EPS * (tol_scale + 1e-300) * max(1, len(sh.adds)), dict(det, via="get_TwoDSpectrum"))
            sig.append(("spectrum",))
        elif op[0] == "alldata":
            if tw.storage_initialized:
                try:
                    dd = tw.get_all_data()
                    tot = numpy.zeros(shape, dtype=complex)
                    bad = False
                    for v in dd.values():
                        a = as_array(v, shape)
                        if a is None:
                            bad = True
                        else:
                            tot = tot + a
                except Exception as e:
                    bad = True
                    det = dict(det, exc=repr(e)[:200])
                # get_all_data documents its keys as TYPE + "_" + str(TAG): at pathway resolution two tags of one type with the same
                # string form (1 and '1') cannot both be represented - the dictionary is not one of the views the statement is about
                collide = False
                if getattr(tw, "storage_resolution", None) == "pathways":
                    seen_ = {}
                    for (lv_, dt_, tg_, _d) in sh.adds:
                        if lv_ == "pathways":
                            seen_.setdefault((dt_, str(tg_)), set()).add(tg_)
                    collide = any(len(v_) > 1 for v_ in seen_.values())
                if collide:
                    ctx.event("get_all_data_not_judged_tags_with_equal_string_form")
                elif bad:
                    ctx.require("total==sum-of-additions", False, dict(det, why="get_all_data failed / wrong shapes"))
                else:
                    ctx.check("total==sum-of-additions", float(numpy.max(numpy.abs(tot - sh.total()))),
                              8 * EPS * (tol_scale + 1e-300) * max(1, len(sh.adds)), dict(det, via="get_all_data"))
            sig.append(("alldata",))
        # ---- after every step: all readable views (once something is stored)
        for (kind, sel, tag) in (readable_views(tw.storage_resolution, sh) if sh.adds else []):
            if kind == "total":
                exp, det_ok = sh.total(), True
            else:
                exp, det_ok = sh.view(kind, sel, tag)
            if not det_ok:
                continue
            try:
                got = read_view(tw, kind, sel, tag)
            except Exception as e:
                ctx.require("view-readable", False, dict(det, view=[kind, sel, tag], exc=repr(e)[:200]))
                continue
            arr = as_array(got, shape)
            clause = "total==sum-of-additions" if kind == "total" else "view==sum-of-its-additions"
            if arr is None:
                ctx.require(clause, False, dict(det, view=[kind, sel, tag], why="wrong shape %r" % (numpy.shape(got),)))
                continue
            mech = clause
            ctx.check(clause, float(numpy.max(numpy.abs(arr - exp))),
                      8 * EPS * (tol_scale + 1e-300) * max(1, len(sh.adds)),
                      dict(det, view=[kind, sel, tag], n_additions=len(sh.adds)), mechanism=mech)
        if ctx.violations:
            return
    ctx.sub((label if isinstance(label, str) and label.startswith("x") else "r", tuple(sig)),
            nontrivial=(n_acc >= 2 or (n_acc >= 1 and reduced)))


def run_case(case, ctx):
    if case["cls"] == "random-history":
        rng = numpy.random.default_rng(case["seed"])
        run_history(ctx, case["ops"], case["nx"], case["ny"], case["complex"], rng, "random")
        ctx.nontrivial(bool(ctx._subkeys))
        ctx.key(("random", len(case["ops"]), case["seed"]))
        return
    if case["cls"] == "accumulate-shared-arrays":
        rng = numpy.random.default_rng(case["seed"])
        run_history(ctx, case["ops"], case["nx"], case["ny"], case["complex"], rng, "shared", reuse=0.5, p_byref=1.0)
        ctx.nontrivial(bool(ctx._subkeys))
        ctx.key(("shared", len(case["ops"]), case["seed"]))
        return
    rng = numpy.random.default_rng(12345)
    for h in case["hist"]:
        ops = [ALPHABET[i] for i in h]
        run_history(ctx, ops, 3, 2, True, rng, "x" + "".join("%x" % i for i in h))
        if len(ctx.violations) > 20:
            break
    ctx.nontrivial(bool(ctx._subkeys))
    ctx.key(("exhaustive", case["hist"][0], len(case["hist"])))
