"""C16  Hierarchical equations: complete index set, consistent links, valid states.

Monitors
  * an icontract invariant on the real KTHierarchy (evaluated after __init__
    and every public call): index set, level bookkeeping, raising/lowering
    links and decay factors against a combinatorial enumeration;
  * stored states of KTHierarchyPropagator.propagate: Hermiticity, unit trace,
    closed-system limit against scipy expm, and a bounded-convergence
    restatement of "converges with depth" against the analytic pure-dephasing
    solution of the bath HEOM integrates (high-temperature overdamped bath).
"""
import io
import math
import itertools
import contextlib
import numpy
from qrv import build
from qrv.build import r3

LEVEL = "exploration"
RULE = ("structure: every (number of baths 1-4, depth 0-6) shape (thorough: baths 1-5, depth 0-7, hsize <= 800), each with distinct per-bath "
        "correlation times; dynamics: random dimers/trimers (coupled, uncoupled, degenerate; every third one with complex couplings J exp(i phi)) with random Hermitian unit-trace initial states at depths 0-4; "
        "closed-system limit with zero reorganisation energy; convergence ladders depth 1..6 (thorough 1..8) for uncoupled sites with "
        "sqrt(2 lambda kT)/gamma in [0.3,1.5]. distinct = (class, baths, depth, rounded parameters); non-trivial iff hsize > 1 (structure), "
        "the state changes by more than 1e-3 (dynamics), the coherence decays by more than 5 % (convergence).")
RULE = RULE + " Round-6 workloads: every propagator object is run three times; one third of the closed-limit cases has fast baths (8-14 fs), depth 4-6 and a 2 fs step (max Gamma dt > 1)."
ASSUMPTIONS = ["'converges with increasing depth' is restated as: deviation from the analytic solution is non-increasing from depth 1 to D, "
               "drops by at least 30 % every two levels and is below a calibrated 1.5e-3 at D=6 (1e-4 at D=8), comparisons stop at the integrator's time-step floor 1e-7; nothing is claimed beyond D",
               "the analytic line-shape function is the high-temperature one (the hierarchy announces that only this limit is used)"]
MIN_NONTRIVIAL = {"quick": 40, "thorough": 120}
REQUIRED_CLAUSES = ["index-set", "links", "Gamma", "trace", "hermitian", "closed-system-limit", "converges"]
REQUIRED_CONTRACTS = ["KTHierarchy.invariant"]
TIMEOUT = {"quick": 900, "thorough": 3400}
EPS = numpy.finfo(float).eps

_state = {"ctx": None}


def gen_cases(tier, rng):
    cases = []
    maxb, maxd, maxh = (4, 14, 460) if tier == "quick" else (6, 22, 1400)
    for nb in range(1, maxb + 1):
        for depth in range(0, maxd + 1):
            hs = math.comb(nb + depth, depth)
            if hs > maxh:
                continue
            taus = [r3(rng.uniform(30, 200)) for _ in range(nb)]
            cases.append({"cls": "structure", "nb": nb, "depth": depth, "taus": taus, "cost": 0.3 + (hs / 60.0) ** 2})
    nd = 14 if tier == "quick" else 80
    for i in range(nd):
        N = 2 if rng.random() < 0.7 else 3
        s = build.gen_system(rng, N=N, Nt=int(rng.integers(40, 160)), dt=1.0, dipoles=False, shared_bath=False,
                             zero_coupling=bool(rng.random() < 0.25), degenerate=bool(rng.random() < 0.2),
                             jmax=200.0, spread=300.0, lam=(5.0, 60.0), tau=(30.0, 150.0))
        for b in s["bath"]:
            b["ftype"] = "OverdampedBrownian-HighTemperature" if rng.random() < 0.7 else "OverdampedBrownian"
        depth = int(rng.integers(0, 5 if N == 2 else 4))
        cases.append({"cls": "dynamics", "sys": s, "depth": depth, "seed": int(rng.integers(1 << 30)),
                      "cost": 2 + s["Nt"] / 30.0 * math.comb(N + depth, depth) / 5})
    nc = 6 if tier == "quick" else 30
    for i in range(nc):
        N = 2 if rng.random() < 0.7 else 3
        s = build.gen_system(rng, N=N, Nt=int(rng.integers(40, 120)), dt=1.0, dipoles=False, jmax=200.0, spread=300.0,
                             lam=(5.0, 60.0), tau=(30.0, 150.0))
        for b in s["bath"]:
            b["reorg"] = 0.0
            b["ftype"] = "OverdampedBrownian-HighTemperature"
        depth = int(rng.integers(1, 4))
        if i % 3 == 2:
            # fast baths, deep hierarchy, coarse step: the decay rates of the deepest auxiliary operators exceed 1/dt
            for b in s["bath"]:
                b["cortime"] = r3(rng.uniform(8.0, 14.0))
            s["dt"] = 2.0
            s["Nt"] = int(rng.integers(30, 60))
            depth = 5 + int(rng.integers(0, 2)) if N == 2 else 4
        cases.append({"cls": "closed-limit", "sys": s, "depth": depth, "seed": int(rng.integers(1 << 30)), "cost": 4})
    nl = 10 if tier == "quick" else 40
    D = 6 if tier == "quick" else 8
    kB = 0.6950348 * 1.8836515e-4      # cm-1/K * (rad/fs per cm-1), generator side only
    for i in range(nl):
        T = r3(rng.uniform(150.0, 400.0))
        tau = r3(rng.uniform(30.0, 150.0))
        ratio = rng.uniform(0.3, 1.5)
        # sqrt(2 lam kT)/gamma = ratio  -> lam = (ratio*gamma)^2/(2kT)
        gam = 1.0 / tau
        lam_int = (ratio * gam) ** 2 / (2 * kB * T)
        lam = r3(lam_int / 1.8836515e-4)
        N = 2 if rng.random() < 0.8 else 1
        s = {"N": N, "E": [r3(12000 + 150 * k + rng.uniform(0, 100)) for k in range(N)], "J": numpy.zeros((N, N)).tolist(),
             "T": T, "Nt": int(rng.integers(200, 400)), "dt": 1.0, "shared_bath": True,
             "bath": [{"ftype": "OverdampedBrownian-HighTemperature", "reorg": lam, "cortime": tau, "T": T}] * N}
        cases.append({"cls": "convergence", "sys": s, "D": D, "ratio": r3(ratio), "cost": 25 if D == 6 else 70})
    return cases


# ----------------------------------------------------------------------
def reference_indices(nb, depth):
    return [n for L in range(depth + 1) for n in itertools.product(range(depth + 1), repeat=nb) if sum(n) == L]


def check_structure(hy, ctx, where):
    nb, depth = int(hy.nbath), int(hy.depth)
    det = {"baths": nb, "depth": depth, "where": where}
    got = [tuple(int(x) for x in r) for r in numpy.asarray(hy.hinds)]
    ref = reference_indices(nb, depth)
    ok = (sorted(got) == sorted(ref)) and (len(set(got)) == len(got))
    ctx.require("index-set", ok, dict(det, n_got=len(got), n_ref=len(ref), duplicates=len(got) - len(set(got)),
                                      missing=sorted(set(ref) - set(got))[:5], extra=sorted(set(got) - set(ref))[:5]))
    ctx.require("index-set", int(hy.hsize) == math.comb(nb + depth, depth) == len(got), dict(det, what="hsize", hsize=int(hy.hsize)))
    # level by level
    lev_ok = True
    pos = 0
    for L in range(depth + 1):
        n_L = math.comb(nb + L - 1, L)
        if int(hy.levels[L]) != pos or int(hy.levlengths[L]) != n_L:
            lev_ok = False
        if any(sum(got[i]) != L for i in range(pos, min(pos + n_L, len(got)))):
            lev_ok = False
        pos += n_L
    ctx.require("levels", lev_ok, dict(det, levels=[int(x) for x in hy.levels], levlengths=[int(x) for x in hy.levlengths]))
    if not ok:
        return
    pos_of = {n: i for i, n in enumerate(got)}
    bad = []
    for i, n in enumerate(got):
        for k in range(nb):
            lo = list(n)
            lo[k] -= 1
            up = list(n)
            up[k] += 1
            e_lo = pos_of.get(tuple(lo), -1)
            e_up = pos_of.get(tuple(up), -1)
            if int(hy.nm1[i, k]) != e_lo or int(hy.np1[i, k]) != e_up:
                bad.append([list(n), k, int(hy.nm1[i, k]), e_lo, int(hy.np1[i, k]), e_up])
            # mutually inverse, absent exactly at the boundaries
            if n[k] == 0 and int(hy.nm1[i, k]) != -1:
                bad.append([list(n), k, "lowering link present at n_k=0"])
            if sum(n) == depth and int(hy.np1[i, k]) != -1:
                bad.append([list(n), k, "raising link present at |n|=depth"])
            j = int(hy.np1[i, k])
            if j >= 0 and int(hy.nm1[j, k]) != i:
                bad.append([list(n), k, "np1 then nm1 is not the identity"])
    ctx.require("links", not bad, dict(det, wrong=bad[:6]))
    gam = numpy.asarray(hy.gamma, dtype=float)
    Gref = numpy.array([sum(n[k] * gam[k] for k in range(nb)) for n in got])
    ctx.check("Gamma", float(numpy.max(numpy.abs(numpy.asarray(hy.Gamma) - Gref))) if len(got) else 0.0,
              16 * EPS * (depth + 1) * float(numpy.max(gam)) + 1e-300, det)


def setup_worker(ctx):
    import icontract
    from quantarhei.qm.liouvillespace import heom

    def hierarchy_consistent(self):
        c = _state["ctx"]
        if c is None or not hasattr(self, "hpop"):     # still inside __init__
            return True
        if getattr(self, "_qrv_checked", False):
            return True
        c.contract_hit("KTHierarchy.invariant")
        self._qrv_checked = True
        check_structure(self, c, "class invariant")
        return True

    icontract.invariant(hierarchy_consistent)(heom.KTHierarchy)
    _state["ctx"] = ctx


def mk_hierarchy(ham, sbi, depth):
    from quantarhei.qm.liouvillespace.heom import KTHierarchy
    with contextlib.redirect_stdout(io.StringIO()):
        return KTHierarchy(ham, sbi, depth)


def run_case(case, ctx):
    import quantarhei as qr
    import scipy.linalg as sl
    from quantarhei.qm.liouvillespace.heom import KTHierarchyPropagator
    from quantarhei.core.units import kB_int
    _state["ctx"] = ctx
    cls = case["cls"]

    if cls == "structure":
        nb, depth = case["nb"], case["depth"]
        s = {"N": nb, "E": [12000.0 + 40 * k for k in range(nb)], "J": numpy.zeros((nb, nb)).tolist(), "T": 300.0,
             "Nt": 50, "dt": 1.0, "shared_bath": False,
             "bath": [{"ftype": "OverdampedBrownian", "reorg": 20.0 + k, "cortime": case["taus"][k], "T": 300.0} for k in range(nb)]}
        with ctx.lib("KTHierarchy construction"):
            agg, t, cfs = build.make_aggregate(s)
            ham = agg.get_Hamiltonian()
            sbi = agg.get_SystemBathInteraction()
            hy = mk_hierarchy(ham, sbi, depth)
        ctx.require("index-set", int(hy.nbath) == nb, {"what": "nbath", "got": int(hy.nbath)})
        gam_ref = numpy.array([1.0 / x for x in case["taus"]])
        ctx.check("Gamma", float(numpy.max(numpy.abs(numpy.asarray(hy.gamma) - gam_ref))), 1e-12, {"what": "gamma_k = 1/tau_k"})
        check_structure(hy, ctx, "explicit")
        # a second public call must not disturb the structure
        with ctx.lib("KTHierarchy.reset_ados"):
            hy.reset_ados()
        ctx.require("ado-shape", hy.ado.shape == (hy.hsize, ham.dim, ham.dim), {"got": list(hy.ado.shape)})
        ctx.key(("structure", nb, depth))
        ctx.nontrivial(hy.hsize > 1)
        return

    desc = case["sys"]
    N = desc["N"]
    with ctx.lib("system construction"):
        agg, t, cfs = build.make_aggregate(desc)
        ham = agg.get_Hamiltonian()
        sbi = agg.get_SystemBathInteraction()
    dim = ham.dim
    if cls in ("dynamics", "closed-limit") and case["seed"] % 3 == 0 and N >= 2:
        # a Hermitian Hamiltonian with complex resonance couplings J exp(i phi) (same energies, same system-bath interaction)
        prng = numpy.random.default_rng(case["seed"] + 1)
        Hc = numpy.array(ham.data, dtype=complex)
        for a_ in range(1, dim):
            for b_ in range(a_ + 1, dim):
                ph = numpy.exp(1j * prng.uniform(0.3, 2.8))
                Hc[a_, b_] = Hc[a_, b_] * ph
                Hc[b_, a_] = numpy.conj(Hc[a_, b_])
        with ctx.lib("Hamiltonian with complex couplings"):
            hamc = qr.Hamiltonian(data=Hc)
            hamc.set_rwa([int(x) for x in ham.rwa_indices])
        ctx.check("closed-system-limit", float(numpy.max(numpy.abs(numpy.array(hamc.rwa_energies) - numpy.array(ham.rwa_energies)))), 1e-12, {"what": "rotating-wave energies of the complex Hamiltonian"})
        ham = hamc
        ctx.event("complex_hermitian_hamiltonians")
    Hrwa = numpy.array(ham.data) - numpy.diag(numpy.array(ham.rwa_energies, dtype=float))

    if cls in ("dynamics", "closed-limit"):
        rng = numpy.random.default_rng(case["seed"])
        rho0 = build.random_state(rng, dim, kind=["mixed", "pure"][int(rng.integers(2))])
        with ctx.lib("KTHierarchyPropagator.propagate"):
            hy = mk_hierarchy(ham, sbi, case["depth"])
            prop = KTHierarchyPropagator(t, hy)
            rin = qr.ReducedDensityMatrix(data=rho0.copy())
            ev = prop.propagate(rin)
            data = numpy.array(ev.data)
            # the same propagator object used for further runs (as a program looping over initial states does)
            data_again = [numpy.array(prop.propagate(qr.ReducedDensityMatrix(data=rho0.copy())).data) for _ in range(2)]
        Nt = t.length
        ctx.require("shape", data.shape == (Nt, dim, dim), {"got": list(data.shape)})
        ctx.require("finite", bool(numpy.all(numpy.isfinite(data))), {})
        tr = numpy.trace(data, axis1=1, axis2=2)
        ctx.check("trace", float(numpy.max(numpy.abs(tr - 1.0))), 256 * EPS * Nt, {"class": cls, "depth": case["depth"], "N": N})
        ctx.check("hermitian", float(numpy.max(numpy.abs(data - numpy.conj(numpy.transpose(data, (0, 2, 1)))))),
                  256 * EPS * Nt, {"class": cls, "depth": case["depth"], "N": N})
        ctx.check("initial-state-stored", float(numpy.max(numpy.abs(data[0] - rho0))), 0.0 + 4 * EPS, {})
        moved = float(numpy.max(numpy.abs(data - rho0[None])))
        for k_, da_ in enumerate(data_again):
            ctx.check("closed-system-limit" if cls == "closed-limit" else "hermitian", float(numpy.max(numpy.abs(da_ - data))), 1e-13,
                      {"class": cls, "depth": case["depth"], "N": N, "what": "run %d of the same propagator object vs its first run" % (k_ + 2),
                       "max_Gamma_dt": float(numpy.max(numpy.asarray(hy.Gamma)) * t.step)})
        if cls == "closed-limit":
            x = 2 * float(numpy.linalg.norm(Hrwa, 2)) * t.step
            loc = x ** 5 / 120.0 * math.exp(x)
            worst = 0.0
            wb = 1.0
            for i in range(Nt):
                U = sl.expm(-1j * Hrwa * t.data[i])
                e = float(numpy.max(numpy.abs(data[i] - U @ rho0 @ U.conj().T)))
                b = i * loc * 2 + 1e-13
                if e / b > worst / wb:
                    worst, wb = e, b
            ctx.check("closed-system-limit", worst, wb, {"N": N, "depth": case["depth"], "x": x})
        ctx.key((cls, N, case["depth"], tuple(desc["E"]), desc["Nt"]))
        ctx.nontrivial(moved > 1e-3)
        return

    if cls == "convergence":
        b = desc["bath"][0]
        lam = float(cfs[0].lamb)
        gam = 1.0 / b["cortime"]
        kT = kB_int * b["T"]
        tt = numpy.array(t.data)
        g = (lam * (2 * kT - 1j * gam) / gam ** 2) * (numpy.exp(-gam * tt) + gam * tt - 1)
        w = float(ham.data[1, 1] - ham.rwa_energies[1])
        ana = 0.5 * numpy.exp(-1j * w * tt - g)
        devs = []
        devs_ss = []
        for depth in range(1, case["D"] + 1):
            rho0 = numpy.zeros((dim, dim), dtype=complex)
            rho0[0, 0] = rho0[1, 1] = rho0[0, 1] = rho0[1, 0] = 0.5
            with ctx.lib("KTHierarchyPropagator.propagate"):
                hy = mk_hierarchy(ham, sbi, depth)
                ev = KTHierarchyPropagator(t, hy).propagate(qr.ReducedDensityMatrix(data=rho0))
            d = numpy.array(ev.data)
            devs.append(float(numpy.max(numpy.abs(d[:, 1, 0] - ana))))
            tr = numpy.trace(d, axis1=1, axis2=2)
            ctx.check("trace", float(numpy.max(numpy.abs(tr - 1.0))), 256 * EPS * t.length, {"class": cls, "depth": depth})
            # populations do not move for uncoupled sites
            ctx.check("populations-static", float(numpy.max(numpy.abs(d[:, 1, 1] - 0.5))), 1e-10, {"depth": depth})
            if N == 2:
                # a coherence between the two excited sites feels both (independent) baths: exp(-i(w1-w2)t - g1(t) - conj(g2(t)))
                r3s = numpy.zeros((dim, dim), dtype=complex)
                r3s[1, 1] = r3s[2, 2] = r3s[1, 2] = r3s[2, 1] = 0.5
                with ctx.lib("KTHierarchyPropagator.propagate (site-site coherence)"):
                    hy2 = mk_hierarchy(ham, sbi, depth)
                    ev2 = KTHierarchyPropagator(t, hy2).propagate(qr.ReducedDensityMatrix(data=r3s))
                d2 = numpy.array(ev2.data)
                w12 = float((ham.data[1, 1] - ham.rwa_energies[1]) - (ham.data[2, 2] - ham.rwa_energies[2]))
                ana_ss = 0.5 * numpy.exp(-1j * w12 * tt - g - numpy.conj(g))
                devs_ss.append(float(numpy.max(numpy.abs(d2[:, 1, 2] - ana_ss))))
                tr2 = numpy.trace(d2, axis1=1, axis2=2)
                ctx.check("trace", float(numpy.max(numpy.abs(tr2 - 1.0))), 256 * EPS * t.length, {"class": cls, "depth": depth, "state": "site-site"})
                ctx.check("hermitian", float(numpy.max(numpy.abs(d2 - numpy.conj(numpy.transpose(d2, (0, 2, 1)))))), 1e-12, {"class": cls, "depth": depth, "state": "site-site"})
        ctx.note("devs_site_site", devs_ss)
        ctx.note("devs", devs)
        ctx.note("ratio", case["ratio"])
        D = case["D"]
        # below FLOOR the deviation is the time-step (Taylor) error of the
        # integrator, which does not depend on depth
        # (the level of that floor depends on the step and the parameters: 1.04e-7 was seen; it is taken from the ladder itself when the
        #  ladder has come down below 1e-5, two orders of magnitude under the convergence target)
        FLOOR = 1e-7
        if min(devs) < 1e-5:
            FLOOR = max(FLOOR, 1.1 * min(devs))
        mono = all(devs[i + 1] <= max(devs[i], FLOOR) for i in range(D - 1))
        fast = all(devs[i + 2] <= max(0.7 * devs[i], FLOOR) for i in range(D - 2))
        det = {"deviations_by_depth": devs, "sqrt(2 lam kT)/gamma": case["ratio"], "lam_cm": b["reorg"], "tau": b["cortime"], "T": b["T"]}
        ctx.require("converges", mono and fast, dict(det, what="deviation not decreasing with depth"))
        target = 1.5e-3 if D == 6 else 1e-4
        ctx.check("converges", devs[-1], target, dict(det, what="deviation at the largest depth"))
        if devs_ss:
            # two baths act on a site-site coherence: the effective coupling is larger by sqrt(2), convergence is slower but of the same kind
            FLOOR2 = max(FLOOR, 1.1 * min(devs_ss)) if min(devs_ss) < 1e-5 else FLOOR
            mono2 = all(devs_ss[i + 1] <= max(devs_ss[i], FLOOR2) for i in range(D - 1))
            fast2 = all(devs_ss[i + 2] <= max(0.7 * devs_ss[i], FLOOR2) for i in range(D - 2))
            det2 = dict(det, deviations_by_depth=devs_ss, coherence="between the two excited sites")
            ctx.require("converges", mono2 and fast2, dict(det2, what="deviation not decreasing with depth"))
            ctx.check("converges", devs_ss[-1], 10 * target, dict(det2, what="deviation at the largest depth"))
        decay = 1.0 - float(numpy.min(numpy.abs(ana))) / 0.5
        ctx.key((cls, N, D, b["reorg"], b["cortime"], b["T"]))
        ctx.nontrivial(decay > 0.05)
