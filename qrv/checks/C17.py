"""C17  Population (master-equation) dynamics conserve and match the exponential.

Monitors
  * an icontract class invariant on the real RateMatrix (zero column sums),
    evaluated after every public call, plus a shadow dictionary of the values
    assigned by set_rate;
  * return values of PopulationPropagator.propagate and get_PropagationMatrix
    compared with scipy.linalg.expm under the Taylor truncation bound.
"""
import math
import numpy
from qrv.build import r3

LEVEL = "exploration"
RULE = ("set_rate histories of 1-60 edits (re-assignments, zeros, refused diagonal edits) on matrices of dimension 2-8; "
        "generators: dense random, sparse chain, equal-rate chain (non-diagonalisable), absorbing/reducible, symmetric, "
        "complex-spectrum cycle; initial populations as float64, integer and single-precision arrays; time axes with dt*max|K_ii| in [0.005, 0.25], 5-300 points; sub-axes with stride 1-20 "
        "and starts shifted by multiples and non-multiples of the stride. distinct = (class, dim, rounded generator, axis, sub-axis); "
        "non-trivial iff the generator has at least one non-zero transfer rate and the populations move by more than 100x the bound.")
RULE = RULE + " Round-6 workloads: generator classes include nearly symmetric matrices (sixth-digit differences) and symmetric exchange plus slow one-directional channels (< 1e-8/fs)."
RULE = RULE + " Round-7 workloads: after all other calls the rate matrix held by the propagator is edited (set_rate / element assignment) and the propagation repeated."
ASSUMPTIONS = ["rate matrices handed to the propagator have non-negative off-diagonals and zero column sums (the statement's quantifier)",
               "get_PropagationMatrix is called with corrections off; its time origin is the start of the propagator's own axis"]
MIN_NONTRIVIAL = {"quick": 300, "thorough": 2000}
REQUIRED_CLAUSES = ["colsum-zero", "assigned-rate-kept", "populations==expm", "propagation-matrix==expm", "sum-conserved"]
REQUIRED_CONTRACTS = ["RateMatrix.invariant"]
EPS = numpy.finfo(float).eps

GEN_CLASSES = ["dense", "chain", "equal-chain", "absorbing", "symmetric", "cycle", "two-blocks", "nearly-symmetric", "symmetric-plus-slow"]


def gen_K(rng, cls, n):
    K = numpy.zeros((n, n))
    if cls == "dense":
        K = rng.uniform(0.0, 1.0, size=(n, n)) * (rng.random((n, n)) < 0.8)
    elif cls == "chain":
        for i in range(n - 1):
            K[i + 1, i] = rng.uniform(0.1, 1.0)
            if rng.random() < 0.5:
                K[i, i + 1] = rng.uniform(0.0, 0.5)
    elif cls == "equal-chain":
        r = rng.uniform(0.2, 1.0)
        for i in range(n - 1):
            K[i + 1, i] = r
    elif cls == "absorbing":
        K = rng.uniform(0.0, 1.0, size=(n, n)) * (rng.random((n, n)) < 0.6)
        K[:, n - 1] = 0.0          # nothing leaves the last state
    elif cls == "symmetric":
        A = rng.uniform(0.0, 1.0, size=(n, n))
        K = (A + A.T) / 2
    elif cls == "cycle":
        for i in range(n):
            K[(i + 1) % n, i] = rng.uniform(0.5, 1.0)
    elif cls == "two-blocks":
        h = max(1, n // 2)
        K[:h, :h] = rng.uniform(0.0, 1.0, size=(h, h))
        K[h:, h:] = rng.uniform(0.0, 1.0, size=(n - h, n - h))
    elif cls in ("nearly-symmetric", "symmetric-plus-slow"):
        A = rng.uniform(0.1, 1.0, size=(n, n))
        K = (A + A.T) / 2
    numpy.fill_diagonal(K, 0.0)
    K = numpy.vectorize(r3)(K) if K.size else K
    if cls == "nearly-symmetric":
        # forward and backward rates that differ in the sixth digit (a detailed-balance factor close to one)
        K = K * (1.0 + numpy.triu(numpy.ones((n, n)), 1) * float(rng.choice([3e-6, 1e-6, -5e-6, 8e-6])))
    elif cls == "symmetric-plus-slow":
        # fast symmetric exchange plus slow one-directional channels (lifetimes of hundreds of nanoseconds next to femtoseconds)
        for _ in range(max(1, n // 2)):
            a_, b_ = int(rng.integers(n)), int(rng.integers(n))
            if a_ != b_:
                K[a_, b_] += float(rng.choice([5e-9, 2e-9, 8e-9]))
    for j in range(n):
        K[j, j] = -numpy.sum(K[:, j])
    return K


def gen_cases(tier, rng):
    cases = []
    nh = 160 if tier == "quick" else 1200
    for i in range(nh):
        n = int(rng.integers(2, 9))
        L = int(rng.integers(1, 61))
        hist = []
        # rates are in 1/fs: lifetimes from femtoseconds to milliseconds are all legitimate values; so are small refinements of a value
        scale = [1.0, 1.0, 1e-3, 1e-6, 1e-9, 1e-12][i % 6]
        last = {}
        for _ in range(L):
            u = rng.random()
            a, b = int(rng.integers(n)), int(rng.integers(n))
            if u < 0.08:
                b = a                      # refused diagonal edit
            elif a == b:
                b = (a + 1) % n
            if (a, b) in last and last[(a, b)] != 0.0 and rng.random() < 0.25:
                v = float(last[(a, b)] * (1.0 + float(rng.choice([1e-7, -1e-7, 3e-6, 1e-9]))))
            else:
                v = 0.0 if rng.random() < 0.15 else float("%.3g" % (rng.uniform(0.0, 2.0) * scale))
            if a != b:
                last[(a, b)] = v
            hist.append([a, b, v])
        cases.append({"cls": "set_rate-history", "n": n, "hist": hist, "seed": int(rng.integers(1 << 30)), "cost": 1})
    npg = 350 if tier == "quick" else 2800
    for i in range(npg):
        cls = GEN_CLASSES[i % len(GEN_CLASSES)]
        n = int(rng.integers(2, 9))
        if cls in ("equal-chain", "chain") and n < 3:
            n = 3
        K = gen_K(rng, cls, n)
        x = r3(10 ** rng.uniform(math.log10(0.005), math.log10(0.25)))
        Nt = int(rng.integers(5, 301))
        start = 0.0 if rng.random() < 0.6 else r3(rng.uniform(-20, 50))
        stride = int(rng.integers(1, 21))
        shift = int(rng.integers(0, 3 * stride + 1)) if rng.random() < 0.7 else 0
        cases.append({"cls": "gen:" + cls, "n": n, "K": K.tolist(), "x": x, "Nt": Nt, "start": start,
                      "stride": stride, "shift": shift, "seed": int(rng.integers(1 << 30)), "cost": 2 + Nt / 50})
    return cases


_inv_state = {"ctx": None}


def setup_worker(ctx):
    """class invariant on the real RateMatrix: recorded, never raised into
    library frames"""
    import icontract
    from quantarhei.qm.liouvillespace.rates import ratematrix

    def colsums_zero(self):
        c = _inv_state["ctx"]
        if c is None or not getattr(self, "_qrv_track", False):
            return True
        d = numpy.asarray(self.data)
        c.contract_hit("RateMatrix.invariant")
        res = float(numpy.max(numpy.abs(d.sum(axis=0)))) if d.size else 0.0
        c.check("colsum-zero", res, 16 * EPS * max(float(numpy.sum(numpy.abs(d))), 1e-300) + 1e-300,
                {"where": "class invariant after a public call", "dim": int(d.shape[0])})
        return True

    icontract.invariant(colsums_zero)(ratematrix.RateMatrix)
    _inv_state["ctx"] = ctx


def taylor_bound(x, n_steps, L=4):
    loc = x ** (L + 1) / math.factorial(L + 1) * math.exp(x)
    return n_steps * loc * (1.0 + loc) ** n_steps


def run_case(case, ctx):
    import quantarhei as qr
    import scipy.linalg as sl
    from quantarhei.qm import RateMatrix
    from quantarhei.qm.propagators.poppropagator import PopulationPropagator
    _inv_state["ctx"] = ctx
    rng = numpy.random.default_rng(case["seed"])

    if case["cls"] == "set_rate-history":
        n = case["n"]
        with ctx.lib("RateMatrix(dim)"):
            rm = RateMatrix(dim=n)
        rm._qrv_track = True
        shadow = {}
        nz = 0
        for k, (a, b, v) in enumerate(case["hist"]):
            before = numpy.array(rm.data, copy=True)
            if a == b:
                refused = False
                try:
                    rm.set_rate((a, b), v)
                except Exception:
                    refused = True
                ctx.require("diagonal-edit-refused", refused, {"step": k, "pos": [a, b]})
                ctx.require("refused-edit-changes-nothing", numpy.array_equal(before, rm.data), {"step": k})
                continue
            with ctx.lib("RateMatrix.set_rate"):
                rm.set_rate((a, b), v)
            shadow[(a, b)] = v
            if v != 0.0:
                nz += 1
            d = numpy.asarray(rm.data)
            tot = float(numpy.sum(numpy.abs(d))) + 1e-300
            ctx.check("colsum-zero", float(numpy.max(numpy.abs(d.sum(axis=0)))), 16 * EPS * tot * (k + 1),
                      {"step": k, "edit": [a, b, v]})
            bad = [(i, j) for i in range(n) for j in range(n) if i != j and d[i, j] != shadow.get((i, j), 0.0)]
            ctx.require("assigned-rate-kept", not bad, {"step": k, "edit": [a, b, v], "wrong_elements": bad[:5]})
            dg = [j for j in range(n) if abs(d[j, j] + sum(shadow.get((i, j), 0.0) for i in range(n) if i != j)) > 16 * EPS * tot * (k + 1)]
            ctx.require("diagonal==-sum-of-assigned", not dg, {"step": k, "columns": dg})
        # the edited matrix drives a propagation
        d = numpy.array(rm.data, copy=True)
        kmax = float(numpy.max(numpy.abs(numpy.diag(d))))
        if kmax > 0:
            dt = 0.1 / kmax
            t = qr.TimeAxis(0.0, 30, dt)
            p0 = rng.random(n)
            p0 /= p0.sum()
            with ctx.lib("PopulationPropagator(RateMatrix).propagate"):
                pops = PopulationPropagator(t, rm).propagate(p0.copy())
            x = float(numpy.linalg.norm(d, 1)) * dt
            ref = numpy.array([sl.expm(d * tt) @ p0 for tt in t.data])
            ctx.check("populations==expm", float(numpy.max(numpy.abs(pops - ref))), taylor_bound(x, 29) + 64 * EPS,
                      {"from": "edited RateMatrix", "x": x})
        ctx.key(("hist", n, len(case["hist"]), tuple(map(tuple, case["hist"][:6]))))
        ctx.nontrivial(nz >= 1 and len(shadow) >= 1)
        return

    # ---------------------------------------------------------------- gen:*
    K = numpy.array(case["K"], dtype=float)
    n = case["n"]
    kmax = float(numpy.max(numpy.abs(numpy.diag(K))))
    if kmax == 0.0:
        ctx.key(("zero", n))
        return
    dt = case["x"] / kmax
    Nt = case["Nt"]
    t = qr.TimeAxis(case["start"], Nt, dt)
    kind = ["basis", "random", "random"][int(rng.integers(3))]
    if kind == "basis":
        p0 = numpy.zeros(n)
        p0[int(rng.integers(n))] = 1.0
    else:
        p0 = rng.random(n)
        p0 /= p0.sum()
    as_obj = bool(rng.random() < 0.5)
    with ctx.lib("PopulationPropagator.propagate"):
        rmx = RateMatrix(data=K.copy()) if as_obj else K.copy()
        prop = PopulationPropagator(t, rmx)
        # how the caller wrote the initial populations: float array; an integer array such as array([1, 0, 0]); single precision
        p0_form = "float64"
        if kind == "basis" and rng.random() < 0.6:
            p0_form = "int"
            p_arg = p0.astype(int)
        elif kind != "basis" and rng.random() < 0.25:
            p0_form = "float32"
            p_arg = p0.astype(numpy.float32)
            p0 = p_arg.astype(float)
        else:
            p_arg = p0.copy()
        pops = numpy.array(prop.propagate(p_arg))
    ctx.require("shape", pops.shape == (Nt, n), {"got": list(pops.shape), "p0_form": p0_form})
    x1 = float(numpy.linalg.norm(K, 1)) * dt
    bound_n = numpy.array([taylor_bound(x1, i) for i in range(Nt)]) + 64 * EPS
    ref = numpy.array([sl.expm(K * (tt - t.data[0])) @ p0 for tt in t.data])
    err = numpy.max(numpy.abs(pops - ref), axis=1)
    worst = int(numpy.argmax(err / bound_n))
    ctx.check("populations==expm", float(err[worst]), float(bound_n[worst]),
              {"index": worst, "x": x1, "class": case["cls"], "n": n, "initial_populations_given_as": p0_form})
    ctx.check("sum-conserved", float(numpy.max(numpy.abs(pops.sum(axis=1) - float(p0.sum())))), 64 * EPS * Nt * (1 + x1),
              {"class": case["cls"], "n": n, "Nt": Nt})
    ctx.check("non-negative", float(max(0.0, -numpy.min(pops))), 1e-13, {"class": case["cls"], "x": case["x"]})
    ctx.require("input-p0-unchanged", True)
    moved = float(numpy.max(numpy.abs(ref[-1] - p0)))

    # propagation matrix on a sub axis
    stride, shift = case["stride"], case["shift"]
    maxlen = (Nt - 1 - shift) // stride + 1
    if maxlen >= 2:
        ns = int(rng.integers(2, maxlen + 1))
        ts = qr.TimeAxis(t.data[shift], ns, stride * dt)
        with ctx.lib("TimeAxis.is_subset_of"):
            sub = ts.is_subset_of(t)
        # by construction every point of the coarser axis is a point of the propagator's axis; compatibility is exact membership of the
        # floating-point values (axes whose values differ in the last bits are refused by design), so it is demanded where that holds
        last_index = shift + (ns - 1) * stride
        exact = bool(numpy.all(numpy.isin(numpy.asarray(ts.data), numpy.asarray(t.data)))) and (stride * t.step == ts.step)
        if exact:
            ctx.require("propagation-matrix==expm", bool(sub), {"what": "compatible coarser axis refused by is_subset_of", "stride": stride, "shift": shift, "points": ns,
                                                            "index_of_last_point": last_index, "fine_axis_length": Nt})
            ctx.event("exactly_compatible_subaxes")
        if sub:
            with ctx.lib("PopulationPropagator.get_PropagationMatrix"):
                U = prop.get_PropagationMatrix(ts)
            U = numpy.asarray(U)
            ok = U.shape == (n, n, ns)
            ctx.require("propagation-matrix==expm", ok, {"what": "shape", "got": list(U.shape)})
            if ok:
                worst = 0.0
                wi = 0
                for i in range(ns):
                    e = float(numpy.max(numpy.abs(U[:, :, i] - sl.expm(K * (ts.data[i] - t.data[0])))))
                    if e > worst:
                        worst, wi = e, i
                mech = "propagation-matrix==expm"
                ctx.check("propagation-matrix==expm", worst, 1e-9,
                          {"class": case["cls"], "n": n, "stride": stride, "shift": shift, "index": wi,
                           "shift_is_multiple_of_stride": shift % stride == 0}, mechanism=mech)
                ctx.event("propagation_matrices_checked")
            # the perturbative-corrections option returns the same propagation matrix and, like every call, leaves the rate matrix and the
            # propagator as they were: the calls that follow it still conserve and still match the exponential
            corr = int(rng.integers(0, 3))
            with ctx.lib("get_PropagationMatrix(corrections=%d) and the calls after it" % corr):
                res = prop.get_PropagationMatrix(ts, corrections=corr, exact=True)
                Uc = numpy.asarray(res[0])
                data_after = numpy.array(rmx.data if as_obj else rmx, dtype=float)
                pops2 = numpy.array(prop.propagate(p0.copy()))
                U2 = numpy.asarray(prop.get_PropagationMatrix(ts))
            det17 = {"class": case["cls"], "n": n, "corrections": corr, "rate_matrix_given_as": "RateMatrix" if as_obj else "array"}
            if ok:
                ctx.check("propagation-matrix==expm", float(numpy.max(numpy.abs(Uc - U))), 1e-12, dict(det17, what="matrix returned together with the corrections"))
                ctx.check("propagation-matrix==expm", float(numpy.max(numpy.abs(U2 - U))), 0.0, dict(det17, what="same call repeated after a corrections call"))
            ctx.check("colsum-zero", float(numpy.max(numpy.abs(data_after - K))), 0.0, dict(det17, what="rate matrix handed to the propagator, after get_PropagationMatrix(corrections)"))
            ctx.check("populations==expm", float(numpy.max(numpy.abs(pops2 - pops))), 0.0, dict(det17, what="propagate() repeated after a corrections call"))
        else:
            ctx.event("subaxis_rejected_by_is_subset_of")
    # the rate matrix the propagator was given is edited afterwards (set_rate on the RateMatrix object, or element assignment on the array):
    # the next propagation and the next propagation matrix follow the rates as they are now
    if n >= 2:
        a_, b_ = 0, 1
        newv = float("%.3g" % (abs(K[a_, b_]) * 1.7 + 0.31 * kmax))
        with ctx.lib("propagate() after the rate matrix was edited"):
            if as_obj:
                rmx.set_rate((a_, b_), newv)
                K_now = numpy.array(rmx.data, dtype=float)
            else:
                rmx[b_, b_] += rmx[a_, b_] - newv
                rmx[a_, b_] = newv
                K_now = numpy.array(rmx, dtype=float)
            pops4 = numpy.array(prop.propagate(p0.copy()))
        x4 = float(numpy.linalg.norm(K_now, 1)) * dt
        b4 = numpy.array([taylor_bound(x4, i) for i in range(Nt)]) + 64 * EPS
        ref4 = numpy.array([sl.expm(K_now * (tt - t.data[0])) @ p0 for tt in t.data])
        err4 = numpy.max(numpy.abs(pops4 - ref4), axis=1)
        w4 = int(numpy.argmax(err4 / b4))
        ctx.check("populations==expm", float(err4[w4]), float(b4[w4]), {"index": w4, "x": x4, "class": case["cls"], "n": n,
                                                                       "what": "propagation after the rate matrix held by the propagator was edited",
                                                                       "rate_matrix_given_as": "RateMatrix" if as_obj else "array"})
        ctx.check("colsum-zero", float(numpy.max(numpy.abs(K_now.sum(axis=0)))), 64 * EPS * float(numpy.max(numpy.abs(K_now))) * n, {"what": "edited rate matrix"})
    nonzero = bool(numpy.any(K - numpy.diag(numpy.diag(K)) != 0))
    ctx.key((case["cls"], n, tuple(numpy.round(K.ravel(), 4)[:12]), Nt, stride, shift))
    ctx.nontrivial(nonzero and moved > 100 * float(bound_n[-1]))
