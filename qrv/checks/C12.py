"""C12  Third-order response: exact orientational average, additivity, symmetry.

A contract on liouville_pathway.orientational_averaging captures, for every
pathway the real calculator builds, the four field polarisations, the four
transition dipoles, sign, evolution factor, initial population and the
prefactor the library computed, and compares the prefactor with an independent
exact SO(3) average (icosahedral rotation group).  Rotation, scaling,
total = rephasing + non-rephasing and uncoupled-additivity clauses compare
whole responses of two real runs.
"""
import io
import copy
import contextlib
import numpy
from qrv.build import r3
from qrv.oracles import so3

LEVEL = "exploration"
RULE = ("dimers and trimers with two-exciton states, site energies 11500-12700 1/cm, couplings 0-300 1/cm incl. exactly zero, transition widths 50-300 1/cm "
        "(different per molecule), Gaussian and Lorentzian line shapes, waiting-time points from a unitary or a relaxing evolution superoperator, random dipoles with "
        "|d| in [0.3, 3] (every third system with one weak transition, |d| in [0.01, 0.05]); uncoupled molecules with exactly equal transition energies and different Gaussian widths; polarisation 4-tuples XXXX, XXYY, XYXY, magic-angle-like and random (unit and non-unit) oblique ones; random proper rotations and "
        "scale factors 0.01-30 (log-uniform). distinct = (class, N, polarisation class, rounded parameters); non-trivial iff at least 4 pathways were built and the response is non-zero.")
RULE = RULE + " Round-6 workloads: for waiting times > 0 the pathways are also generated with the complete evolution superoperator passed directly and compared with those from the superoperator at t2."
RULE = RULE + " Round-7 workloads: every response is normalised by its maximum (read, devide_by) and read again."
ASSUMPTIONS = ["the calculator's default dtol = 1e-12 (the pathway filter compares |d|^2 with |d|_max * dtol; with that default it cannot remove a transition of the generated systems at any generated scale)",
               "responses are compared at 1e-9 of their maximum (metamorphic pairs of real runs)"]
MIN_NONTRIVIAL = {"quick": 25, "thorough": 300}
REQUIRED_CLAUSES = ["prefactor==exact-orientational-average", "rotation-of-dipoles", "rotation-of-polarisations", "fourth-power-scaling", "total==reph+nonr",
                    "uncoupled==sum-of-molecules"]
REQUIRED_CONTRACTS = ["liouville_pathway.orientational_averaging"]
TIMEOUT = {"quick": 1200, "thorough": 3400}

_state = {"ctx": None, "on": False, "seen": 0}


def gen_cases(tier, rng):
    cases = []
    n = 32 if tier == "quick" else 400
    X, Y, Z = [1.0, 0.0, 0.0], [0.0, 1.0, 0.0], [0.0, 0.0, 1.0]
    ma = [numpy.cos(numpy.deg2rad(54.7356)), numpy.sin(numpy.deg2rad(54.7356)), 0.0]
    for i in range(n):
        N = 2 if rng.random() < 0.65 else 3
        if i % 8 == 0:
            N = 3
        E = [r3(rng.uniform(11500, 12700)) for _ in range(N)]
        J = numpy.zeros((N, N))
        uncoupled = (i % 4 == 0)
        for a in range(N):
            for b in range(a + 1, N):
                J[a, b] = J[b, a] = 0.0 if uncoupled or rng.random() < 0.15 else r3(rng.uniform(20, 300) * rng.choice([-1, 1]))
        dips = []
        for k in range(N):
            v = rng.normal(size=3)
            v = v / numpy.linalg.norm(v) * rng.uniform(0.3, 3.0)
            dips.append([r3(x) for x in v])
        if i % 3 == 1:
            # one weakly allowed transition next to strong ones
            k = int(rng.integers(N))
            v = numpy.array(dips[k])
            dips[k] = [float("%.3g" % x) for x in v / numpy.linalg.norm(v) * rng.uniform(0.01, 0.05)]
        widths = [r3(rng.uniform(50, 300)) for _ in range(N)]
        if uncoupled and (i // 4) % 2 == 1:
            widths = [widths[0]] * N          # equal widths / dephasing rates
        pk = ["XXXX", "XXYY", "XYXY", "magic", "random-unit", "random"][i % 6]
        if pk == "XXXX":
            pol = [X, X, X, X]
        elif pk == "XXYY":
            pol = [X, X, Y, Y]
        elif pk == "XYXY":
            pol = [X, Y, X, Y]
        elif pk == "magic":
            pol = [X, X, ma, ma]
        else:
            pol = []
            for k in range(4):
                v = rng.normal(size=3)
                if pk == "random-unit":
                    v = v / numpy.linalg.norm(v)
                pol.append([r3(x) for x in v])
        if uncoupled and N == 3 and (i // 4) % 2 == 0:
            # energies in neither ascending nor descending order of the molecule list (a cyclic permutation), Gaussian shapes
            Es = sorted(E)
            E = [Es[2], Es[0], Es[1]] if rng.random() < 0.5 else [Es[1], Es[2], Es[0]]
        cases.append({"cls": "uncoupled" if uncoupled else "coupled", "N": N, "E": E, "J": J.tolist(), "dip": dips, "widths": widths, "pol": pol, "polclass": pk,
                      "shape": ("Gaussian" if (i % 8 == 0) else str(rng.choice(["Gaussian", "Lorentzian"]))), "relaxing": bool(rng.random() < 0.5), "t2_index": int(rng.integers(0, 3)),
                      "seed": int(rng.integers(1 << 30)), "cost": 4 * N})
    # uncoupled molecules with EXACTLY equal transition energies but different line widths (Gaussian shapes): peaks coincide, shapes do not
    for k in range(4 if tier == "quick" else 24):
        N = 2 + k % 2
        e0 = r3(rng.uniform(11800, 12400))
        E = [e0, e0] if N == 2 else [[e0, r3(e0 - 150.0), e0], [e0, e0, e0], [r3(e0 + 90.0), e0, e0]][(k // 2) % 3]
        dips = []
        for _ in range(N):
            v = rng.normal(size=3)
            dips.append([r3(x) for x in v / numpy.linalg.norm(v) * rng.uniform(0.5, 2.0)])
        cases.append({"cls": "uncoupled", "N": N, "E": E, "J": numpy.zeros((N, N)).tolist(), "dip": dips, "widths": [r3(60.0 + 70.0 * j + rng.uniform(0, 30)) for j in range(N)],
                      "pol": [X, X, X, X] if k % 2 == 0 else [X, X, Y, Y], "polclass": "XXXX" if k % 2 == 0 else "XXYY", "shape": "Gaussian", "relaxing": bool(k % 4 >= 2),
                      "t2_index": int(rng.integers(0, 3)), "seed": int(rng.integers(1 << 30)), "cost": 4 * N})
    # the listed known finding (Lorentzian shapes, different dephasing rates, uncoupled molecules) is exercised in every run
    cases.append({"cls": "uncoupled", "N": 2, "E": [11800.0, 12150.0], "J": [[0.0, 0.0], [0.0, 0.0]], "dip": [[1.0, 0.5, 0.2], [0.3, 1.2, -0.4]],
                  "widths": [150.0, 120.0], "pol": [X, X, X, X], "polclass": "XXXX", "shape": "Lorentzian", "relaxing": False, "t2_index": 0,
                  "seed": 7, "cost": 8})
    return cases


def setup_worker(ctx):
    """contract on the real method: evaluated on every pathway the library builds"""
    from quantarhei.spectroscopy import diagramatics
    orig = diagramatics.liouville_pathway.orientational_averaging

    def wrapped(self, lab):
        r = orig(self, lab)
        c = _state["ctx"]
        if c is not None and _state["on"] and getattr(self, "order", 0) == 3:
            c.contract_hit("liouville_pathway.orientational_averaging")
            try:
                e = numpy.array(lab.e, dtype=float)
                d = numpy.array(self.dmoments, dtype=float)
                n0 = self.transitions[0, 1]
                rho0 = float(numpy.real(self.aggregate.rho0[n0, n0]))
                want = self.sign * so3.average4(e, d) * rho0 * self.evolfac
                got = self.pref
                scale = float(numpy.prod(numpy.linalg.norm(e, axis=1)) * numpy.prod(numpy.linalg.norm(d, axis=1))) * abs(rho0) * abs(self.evolfac)
                c.check("prefactor==exact-orientational-average", abs(got - want), 1e-12 * max(scale, 1e-300),
                        {"pathway": str(getattr(self, "pathway_name", "")), "type": str(getattr(self, "pathway_type", "")), "got": complex(got), "want": complex(want),
                         "e": e.tolist(), "d": d.tolist()})
                _state["seen"] += 1
            except Exception as ex:          # never disturb the library
                c.inconclusive("contract could not be evaluated: " + repr(ex)[:200])
        return r
    diagramatics.liouville_pathway.orientational_averaging = wrapped
    _state["ctx"] = ctx


def response(qr, case, out, E=None, J=None, dip=None, widths=None, pol=None, rot=None, scale=1.0, polrot=None, mult=2, pre_t2=None):
    from quantarhei.spectroscopy.mocktwodcalculator import MockTwoDResponseCalculator
    base_call = (E is None and J is None and dip is None and widths is None and pol is None and rot is None and polrot is None and scale == 1.0 and mult == 2 and pre_t2 is None)
    E = case["E"] if E is None else E
    J = numpy.array(case["J"] if J is None else J, dtype=float)
    dip = numpy.array(case["dip"] if dip is None else dip, dtype=float) * scale
    widths = case["widths"] if widths is None else widths
    pol = numpy.array(case["pol"] if pol is None else pol, dtype=float)
    if rot is not None:
        dip = dip @ rot.T
    if polrot is not None:
        pol = pol @ polrot.T
    N = len(E)
    with contextlib.redirect_stdout(out):
        with qr.energy_units("1/cm"):
            mols = [qr.Molecule([0.0, float(e)]) for e in E]
            for i, m in enumerate(mols):
                m.set_transition_width((0, 1), float(widths[i]))
                # Lorentzian shapes take dephasing rates (1/fs): the same numbers read as a dephasing time 5000/width fs
                m.set_transition_dephasing((0, 1), float(widths[i]) / 5000.0)
        for i, m in enumerate(mols):
            m.set_dipole(0, 1, [float(x) for x in dip[i]])
        agg = qr.Aggregate(molecules=mols)
        with qr.energy_units("1/cm"):
            for a in range(N):
                for b in range(a + 1, N):
                    if J[a, b] != 0:
                        agg.set_resonance_coupling(a, b, float(J[a, b]))
        agg1 = copy.copy(agg)
        agg1.build(mult=1)
        H = agg1.get_Hamiltonian()
        t2a = qr.TimeAxis(0.0, 3, 10.0)
        if case["relaxing"] and N >= 2:
            with qr.eigenbasis_of(H):
                K = qr.qm.ProjectionOperator(1, 2, dim=H.dim)
            rate = 1.0 / 150.0
        else:
            K = qr.qm.ProjectionOperator(1, 1, dim=H.dim)
            rate = 0.0
        sbi = qr.qm.SystemBathInteraction(sys_operators=[K], rates=[rate])
        L = qr.qm.LindbladForm(H, sbi)
        eUt = qr.EvolutionSuperOperator(time=t2a, ham=H, relt=L)
        eUt.set_dense_dt(10)
        eUt.calculate(show_progress=False)
        t1 = qr.TimeAxis(0.0, 24, 10.0)
        t3 = qr.TimeAxis(0.0, 24, 10.0)
        calc = MockTwoDResponseCalculator(t1, t2a, t3)
        with qr.energy_units("1/cm"):
            calc.bootstrap(rwa=12100.0, shape=case["shape"])
        agg.build(mult=mult)
        agg.diagonalize()
        lab = qr.LabSetup()
        lab.set_pulse_polarizations(pulse_polarizations=(pol[0], pol[1], pol[2]), detection_polarization=pol[3])
        if pre_t2 is not None:
            # the same calculator, aggregate, evolution superoperator and lab objects used for other waiting times first
            for k in pre_t2:
                calc.calculate_one_system(float(t2a.data[k]), agg, eUt, lab)
        tw = calc.calculate_one_system(float(t2a.data[case["t2_index"]]), agg, eUt, lab)
        # the pathway generator takes the waiting-time evolution either as the complete evolution superoperator or as the superoperator at
        # t2 plus the Hamiltonian: the same pathways with the same prefactors either way
        if base_call and case["t2_index"] > 0:
            types_ = ("R1g", "R2g", "R3g", "R4g")
            t2v = float(t2a.data[case["t2_index"]])
            pa = agg.liouville_pathways_3T(ptype=types_, eUt=eUt, t2=t2v, lab=lab)
            pb = agg.liouville_pathways_3T(ptype=types_, eUt=eUt.at(t2v), ham=H, t2=t2v, lab=lab)
            sig = lambda pws: sorted((str(p.pathway_name), tuple(int(x) for x in numpy.ravel(p.states)), complex(p.pref)) for p in pws)
            _state["pw_routes"] = (sig(pa), sig(pb))
        res = {}
        for f in (qr.signal_TOTL, qr.signal_REPH, qr.signal_NONR):
            tw.set_data_flag(f)
            d = tw.d__data
            res[f] = numpy.array(d) if d is not None else None
        npw = len(calc.pathways) if getattr(calc, "pathways", None) is not None else 0
        if base_call:
            # the response object normalised by the caller (maximum read, then divided), then read again
            tw.set_data_flag(qr.signal_TOTL)
            mx = float(tw.get_max_value())
            # (the maximum of the real part can be zero or negligible, e.g. for oblique polarisations with a vanishing response: a
            #  program would not normalise by it)
            amp = float(numpy.max(numpy.abs(res[qr.signal_TOTL]))) if res.get(qr.signal_TOTL) is not None else 0.0
            if numpy.isfinite(mx) and amp > 0 and abs(mx) > 1e-6 * amp:
                tw.devide_by(mx)
                after = {}
                for f in (qr.signal_TOTL, qr.signal_REPH, qr.signal_NONR):
                    tw.set_data_flag(f)
                    d = tw.d__data
                    after[f] = numpy.array(d) if d is not None else None
                _state["after_divide"] = (mx, after)
    return res, npw


def run_case(case, ctx):
    import quantarhei as qr
    from scipy.spatial.transform import Rotation
    _state["ctx"] = ctx
    rng = numpy.random.default_rng(case["seed"])
    out = io.StringIO()
    N = case["N"]
    T = qr.signal_TOTL
    det = {"N": N, "pol": case["polclass"], "shape": case["shape"], "relaxing": case["relaxing"], "class": case["cls"]}
    _state["on"] = True
    _state["seen"] = 0
    _state.pop("after_divide", None)       # what the base call of THIS case leaves behind (nothing, if it decides not to normalise)
    _state.pop("pw_routes", None)
    try:
        with ctx.lib("2D response calculation", mechanism=None):
            base, npw = response(qr, case, out)
    finally:
        _state["on"] = False
    seen = _state["seen"]
    adiv = _state.pop("after_divide", None)
    if adiv is not None and all(base.get(f) is not None for f in (qr.signal_TOTL, qr.signal_REPH, qr.signal_NONR)):
        mx_, aft = adiv
        sc_ = float(numpy.max(numpy.abs(base[T]))) / abs(mx_) or 1.0
        if all(aft.get(f) is not None for f in aft):
            ctx.check("total==reph+nonr", float(numpy.max(numpy.abs(aft[qr.signal_TOTL] - (aft[qr.signal_REPH] + aft[qr.signal_NONR])))), 1e-12 * sc_,
                      dict(det, what="after the response was divided by its maximum (total read before and after)"))
            ctx.check("fourth-power-scaling", float(numpy.max(numpy.abs(aft[qr.signal_TOTL] - base[T] / mx_))), 1e-12 * sc_,
                      dict(det, what="total after devide_by(max) vs total / max"))
        ctx.event("responses_normalised_and_read_again")
    routes = _state.pop("pw_routes", None)
    if routes is not None:
        ra, rb = routes
        same = len(ra) == len(rb) and all(x[0] == y[0] and x[1] == y[1] for x, y in zip(ra, rb))
        ctx.require("uncoupled==sum-of-molecules" if case["cls"] == "uncoupled" else "total==reph+nonr", same,
                    dict(det, what="pathways generated from the complete evolution superoperator vs from the superoperator at t2: different sets", n=[len(ra), len(rb)]))
        if same and ra:
            sc_ = max(abs(x[2]) for x in ra) or 1.0
            ctx.check("prefactor==exact-orientational-average", max(abs(x[2] - y[2]) for x, y in zip(ra, rb)), 1e-12 * sc_,
                      dict(det, what="prefactors of the pathways generated from the complete evolution superoperator vs from the superoperator at t2", pathways=len(ra)))
        ctx.event("pathway_sets_compared_between_the_two_ways_of_passing_the_evolution")
    ctx.event("pathway_prefactors_checked", seen)
    ctx.note("pathways", npw)
    ok = all(base[f] is not None for f in base)
    ctx.require("response-produced", ok, det)
    if not ok:
        return
    smax = float(numpy.max(numpy.abs(base[T])))
    tol = 1e-9 * max(smax, 1e-300)
    ctx.check("total==reph+nonr", float(numpy.max(numpy.abs(base[T] - base[qr.signal_REPH] - base[qr.signal_NONR]))), tol, det)
    # the response for one waiting time does not depend on which waiting times the same objects were used for before
    with ctx.lib("calculator re-used for several waiting times", mechanism=None):
        others = [k for k in range(3) if k != case["t2_index"]]
        r_re, _n = response(qr, case, out, pre_t2=others + [case["t2_index"]])
    for f in (T, qr.signal_REPH, qr.signal_NONR):
        ctx.check("total==reph+nonr", float(numpy.max(numpy.abs(r_re[f] - base[f]))), 1e-12 * max(smax, 1e-300),
                  dict(det, signal=f, what="same calculator/aggregate/superoperator objects used for other waiting times first"))
    R1 = Rotation.random(random_state=int(rng.integers(1 << 30))).as_matrix()
    R2 = Rotation.random(random_state=int(rng.integers(1 << 30))).as_matrix()
    # scale factors over three and a half decades: the pathway filters must be relative to the dipole scale
    s = float("%.3g" % (10 ** rng.uniform(-2.0, 1.5)))
    with ctx.lib("rotated / scaled runs", mechanism=None):
        r_d, _n = response(qr, case, out, rot=R1)
        r_p, _n = response(qr, case, out, polrot=R2)
        r_s, _n = response(qr, case, out, scale=s)
    for f in (T, qr.signal_REPH):
        ctx.check("rotation-of-dipoles", float(numpy.max(numpy.abs(r_d[f] - base[f]))), tol, dict(det, signal=f))
        ctx.check("rotation-of-polarisations", float(numpy.max(numpy.abs(r_p[f] - base[f]))), tol, dict(det, signal=f))
        ctx.check("fourth-power-scaling", float(numpy.max(numpy.abs(r_s[f] - s ** 4 * base[f]))), tol * s ** 4, dict(det, signal=f, factor=s))
    if case["cls"] == "uncoupled":
        tot = None
        with ctx.lib("single-molecule runs", mechanism=None):
            for k in range(N):
                c1 = dict(case, relaxing=False)
                rk, _n = response(qr, c1, out, E=[case["E"][k]], J=[[0.0]], dip=[case["dip"][k]], widths=[case["widths"][k]], mult=1)
                tot = rk[T] if tot is None else tot + rk[T]
            cu = dict(case, relaxing=False)
            full, _n = response(qr, cu, out)
        distinct_rates = len(set(case["widths"])) > 1
        mech = "lorentzian-esa-dephasing" if (case["shape"] == "Lorentzian" and distinct_rates) else None
        ctx.check("uncoupled==sum-of-molecules", float(numpy.max(numpy.abs(full[T] - tot))), 1e-9 * max(float(numpy.max(numpy.abs(tot))), 1e-300),
                  dict(det, what="aggregate of uncoupled molecules (with two-exciton ESA) vs sum of monomer responses", distinct_rates=distinct_rates),
                  mechanism=mech)
    ctx.key((case["cls"], N, case["polclass"], case["shape"], case["relaxing"], tuple(case["E"])))
    ctx.nontrivial(seen >= 4 and smax > 0)
