"""C20  Distributed work ranges partition the index range exactly.

Monitors
  * the pure partition helpers, called with a stub configuration (size, rank),
    exhaustively over a box of (size, start, length);
  * the public block_distributed_range/list/array helpers and their real
    callers (Redfield tensor construction, tensor conversion, Redfield rate
    matrix) under a *simulated schedule*: the Manager's
    DistributedConfiguration is switched to have_mpi/size=P/rank=r with a stub
    communicator and a stub mpi4py module whose Allreduce records each rank's
    partial array; ranks are run one after the other, Allreduce results of
    earlier collective calls are replayed, and the reduced result is compared
    with the serial one.
"""
import sys
import types
import numpy

from qrv import build

LEVEL = "exploration"
RULE = ("exhaustive box size 1..16 x start {0,1,2,5,-3,17} x length 0..40 (thorough: size<=24, length<=80) "
        "for _calculate_ranges and the list/array variants and the public iterators under a simulated "
        "rank schedule, followed by random call histories on one configuration object (repeated lengths at different starts); random Redfield systems (1-6 baths) reduced over P=1..8 simulated ranks. "
        "distinct = (helper, size, start, length) resp. (caller, P, N, rounded parameters); non-trivial iff "
        "length > 0 and size > 1 (so that at least two ranks compete for the range).")
ASSUMPTIONS = ["ranks are deterministic and independent between collective calls, so running them sequentially "
               "with recorded Allreduce partials is a faithful schedule (mpi4py is not installed)",
               "asynchronous_range (needs real message passing) is not exercised"]
EXHAUSTIVE = {"quick": False, "thorough": False}
MIN_NONTRIVIAL = {"quick": 500, "thorough": 2000}
REQUIRED_CLAUSES = ["partition", "reduced==serial"]
TIMEOUT = {"quick": 500, "thorough": 2400}

STARTS = [0, 1, 2, 5, -3, 17]


def gen_cases(tier, rng):
    cases = []
    smax, lmax = (16, 40) if tier == "quick" else (24, 80)
    for size in range(1, smax + 1):
        cases.append({"cls": "helpers", "size": size, "lmax": lmax, "cost": 1.0, "seed": int(rng.integers(1 << 30)), "nhist": 120 if tier == "quick" else 600})
    for size in range(1, smax + 1, 1 if tier == "thorough" else 2):
        cases.append({"cls": "public-iterators", "size": size, "lmax": min(lmax, 24), "cost": 1.0, "seed": int(rng.integers(1 << 30)), "nhist": 60 if tier == "quick" else 300})
    n = 10 if tier == "quick" else 40
    for i in range(n):
        N = int(rng.integers(1, 7 if tier == "thorough" else 6))
        s = build.gen_system(rng, N=N, Nt=200, dt=1.0, dipoles=False)
        P = [1, 2, 3] + [int(x) for x in rng.integers(2, 9, size=2)]
        cases.append({"cls": "reduce", "sys": s, "P": sorted(set(P)), "cost": 3.0 * N})
    return cases


# ----------------------------------------------------------------------
def check_partition(ctx, blocks, start, stop, what, detail):
    """blocks: list of (lo, hi) per rank, in rank order"""
    ok = True
    msg = None
    pos = start
    sizes = []
    for (lo, hi) in blocks:
        if hi == lo:
            # an empty block hands out nothing; its position is unobservable
            sizes.append(0)
            continue
        if lo != pos or hi < lo:
            ok = False
            msg = "block [%d,%d) does not continue at %d" % (lo, hi, pos)
            break
        sizes.append(hi - lo)
        pos = hi
    if ok and pos != stop:
        ok = False
        msg = "blocks end at %d, range ends at %d" % (pos, stop)
    if ok and sizes and max(sizes) - min(sizes) > 1:
        ok = False
        msg = "block sizes differ by more than one: %r" % (sizes,)
    d = dict(detail)
    d.update({"blocks": [list(b) for b in blocks], "why": msg})
    mech = "partition"
    return ctx.require("partition", ok, d, mechanism=mech)


class Cfg:
    def __init__(self, size, rank):
        self.size = size
        self.rank = rank


class Sim:
    """simulated MPI schedule on the Manager's DistributedConfiguration"""

    def __init__(self):
        from quantarhei import Manager
        self.m = Manager()
        self.dc = self.m.get_DistributedConfiguration()
        self.saved = dict(self.dc.__dict__)
        self.known = []
        self.partials = {}
        self.counter = 0
        self.rank = 0
        sim = self

        class Comm:
            def Allreduce(self, A, B, op=None):
                sim.on_allreduce(A, B)

            def Reduce(self, A, B, op=None):
                sim.on_allreduce(A, B)

            def Barrier(self):
                pass

            def Get_rank(self):
                return sim.rank

            def Get_size(self):
                return sim.size

            def bcast(self, value, root=0):
                return value
        self.comm = Comm()
        mp = types.ModuleType("mpi4py")
        MPI = types.ModuleType("mpi4py.MPI")
        MPI.SUM = "SUM"
        MPI.COMM_WORLD = self.comm
        mp.MPI = MPI
        self.old_mods = (sys.modules.get("mpi4py"), sys.modules.get("mpi4py.MPI"))
        sys.modules["mpi4py"] = mp
        sys.modules["mpi4py.MPI"] = MPI

    def on_allreduce(self, A, B):
        k = self.counter
        self.counter += 1
        if k < len(self.known):
            B[...] = self.known[k]
        else:
            self.partials.setdefault(k, {})[self.rank] = numpy.array(A, copy=True)
            B[...] = A

    def set_rank(self, size, rank):
        self.size = size
        self.rank = rank
        dc = self.dc
        dc.have_mpi = size > 0
        dc.comm = self.comm
        dc.size = size
        dc.rank = rank
        dc.parallel_level = 0
        dc.parallel_region = 0
        dc.inparallel = False
        self.counter = 0

    def run(self, fn, P):
        """returns list over ranks of fn() results with all collectives resolved,
        and the ranges every rank was handed in each block_distributed_range call"""
        self.known = []
        for _pass in range(8):
            self.partials = {}
            outs = []
            for r in range(P):
                self.set_rank(P, r)
                outs.append(fn())
            k = len(self.known)
            if k in self.partials:
                parts = self.partials[k]
                if len(parts) != P:
                    raise RuntimeError("ranks disagree on the number of collective calls")
                self.known.append(sum(parts[r] for r in range(P)))
            else:
                return outs
        raise RuntimeError("more than 8 dependent collective calls")

    def close(self):
        self.dc.__dict__.clear()
        self.dc.__dict__.update(self.saved)
        for name, old in zip(("mpi4py", "mpi4py.MPI"), self.old_mods):
            if old is None:
                sys.modules.pop(name, None)
            else:
                sys.modules[name] = old


def run_case(case, ctx):
    from quantarhei.core import parallel as par
    import quantarhei as qr
    cls = case["cls"]
    if cls == "helpers":
        size = case["size"]
        for start in STARTS:
            for ln in range(0, case["lmax"] + 1):
                stop = start + ln
                blocks = []
                with ctx.lib("_calculate_ranges"):
                    for r in range(size):
                        b = par._calculate_ranges(Cfg(size, r), start, stop)
                        blocks.append((int(b[0]), int(b[1])))
                check_partition(ctx, blocks, start, stop, "_calculate_ranges",
                                {"helper": "_calculate_ranges", "size": size, "start": start, "stop": stop})
                ctx.sub(("ranges", size, start, ln), nontrivial=(ln > 0 and size > 1))
                if start == 0:
                    lst = list(range(100, 100 + ln))
                    arr = numpy.arange(ln * 2).reshape(ln, 2)
                    bl, ba = [], []
                    with ctx.lib("_calculate_ranges_list/array"):
                        for r in range(size):
                            b = par._calculate_ranges_list(Cfg(size, r), lst)
                            bl.append((int(b[0]), int(b[1])))
                            b = par._calculate_ranges_array(Cfg(size, r), arr)
                            ba.append((int(b[0]), int(b[1])))
                    check_partition(ctx, bl, 0, ln, "list", {"helper": "_calculate_ranges_list", "size": size, "len": ln})
                    check_partition(ctx, ba, 0, ln, "array", {"helper": "_calculate_ranges_array", "size": size, "len": ln})
                    ctx.require("variants-agree", bl == blocks and ba == blocks,
                                {"size": size, "len": ln, "range": blocks, "list": bl, "array": ba})
        # histories on ONE configuration object per rank (as the Manager's configuration is in real use): the blocks of a call
        # are a function of (size, rank, start, stop) only, whatever ranges were distributed before
        rng = numpy.random.default_rng(case.get("seed", size))
        cfgs = [Cfg(size, r) for r in range(size)]
        lens = [int(x) for x in rng.integers(0, case["lmax"] + 1, size=4)] + [size, size + 1, 2 * size - 1]
        for k in range(case.get("nhist", 120)):
            ln = int(lens[int(rng.integers(len(lens)))])
            start = int(rng.integers(-20, 60))
            stop = start + ln
            blocks = []
            with ctx.lib("_calculate_ranges (history)"):
                for r in range(size):
                    b = par._calculate_ranges(cfgs[r], start, stop)
                    blocks.append((int(b[0]), int(b[1])))
            check_partition(ctx, blocks, start, stop, "_calculate_ranges",
                            {"helper": "_calculate_ranges", "size": size, "start": start, "stop": stop, "history_step": k, "same_configuration_object": True})
            ctx.sub(("ranges-history", size, start, ln), nontrivial=(ln > 0 and size > 1))
        ctx.event("history_calls", case.get("nhist", 120))
        ctx.nontrivial(size > 1)
        ctx.key(("helpers", size))
        return

    if cls == "public-iterators":
        size = case["size"]
        sim = Sim()
        try:
            for start in STARTS:
                for ln in list(range(0, case["lmax"] + 1)):
                    stop = start + ln
                    got = []
                    blocks = []
                    for r in range(size):
                        sim.set_rank(size, r)
                        with ctx.lib("block_distributed_range"):
                            par.start_parallel_region()
                            it = list(qr.block_distributed_range(start, stop))
                            par.close_parallel_region()
                        got.append(it)
                        blocks.append((it[0], it[-1] + 1) if it else None)
                    # empty blocks carry no position: rebuild contiguous form
                    flat = [x for it in got for x in it]
                    ok = flat == list(range(start, stop))
                    sizes = [len(it) for it in got]
                    ok2 = (max(sizes) - min(sizes) <= 1) if sizes else True
                    ctx.require("partition", ok and ok2,
                                {"helper": "block_distributed_range", "size": size, "start": start, "stop": stop,
                                 "handed_out": got if len(flat) < 60 else sizes}, mechanism="partition")
                    ctx.sub(("public-range", size, start, ln), nontrivial=(ln > 0 and size > 1))
                    if start == 0:
                        lst = ["item%d" % i for i in range(ln)]
                        arr = numpy.arange(ln * 3, dtype=float).reshape(ln, 3)
                        for ri in (False, True):
                            gl, ga = [], []
                            for r in range(size):
                                sim.set_rank(size, r)
                                with ctx.lib("block_distributed_list/array"):
                                    par.start_parallel_region()
                                    a = list(qr.block_distributed_list(lst, return_index=ri))
                                    b = list(qr.block_distributed_array(arr, return_index=ri))
                                    par.close_parallel_region()
                                gl.append(a)
                                ga.append(b)
                            fl = [x for it in gl for x in it]
                            fa = [x for it in ga for x in it]
                            if ri:
                                okl = fl == [(i, lst[i]) for i in range(ln)]
                                oka = (len(fa) == ln and all(fa[i][0] == i and numpy.array_equal(fa[i][1], arr[i]) for i in range(ln)))
                            else:
                                okl = fl == lst
                                oka = (len(fa) == ln and all(numpy.array_equal(fa[i], arr[i]) for i in range(ln)))
                            ctx.require("partition", okl,
                                        {"helper": "block_distributed_list", "return_index": ri, "size": size, "len": ln,
                                         "per_rank_counts": [len(x) for x in gl]}, mechanism="partition")
                            ctx.require("partition", oka,
                                        {"helper": "block_distributed_array", "return_index": ri, "size": size, "len": ln,
                                         "per_rank_counts": [len(x) for x in ga]},
                                        mechanism="partition")
                            ctx.sub(("public-list/array", size, ri, ln), nontrivial=(ln > 0 and size > 1))
            # nested regions: only the outermost region is distributed (reductions happen there only); inside a second region
            # every rank iterates over the whole range
            for start, ln in ((0, 7), (3, 5), (0, size), (-2, 2 * size + 1)):
                for r in range(size):
                    sim.set_rank(size, r)
                    with ctx.lib("block_distributed_range in a nested region"):
                        par.start_parallel_region()
                        par.start_parallel_region()
                        it = list(qr.block_distributed_range(start, start + ln))
                        par.close_parallel_region()
                        it_outer = list(qr.block_distributed_range(start, start + ln))
                        par.close_parallel_region()
                    ctx.require("partition", it == list(range(start, start + ln)), {"helper": "block_distributed_range", "nesting_level": 2, "size": size, "rank": r,
                                                                                   "start": start, "stop": start + ln, "handed_out": it}, mechanism="partition")
                    ctx.require("partition", set(it_outer) <= set(range(start, start + ln)), {"helper": "block_distributed_range", "nesting_level": 1, "what": "after the inner region was closed"}, mechanism="partition")
                ctx.sub(("public-range-nested", size, start, ln), nontrivial=size > 1)
            # histories: the Manager's configuration object is the same for every call of a program
            rng = numpy.random.default_rng(case.get("seed", size) + 7)
            lens = [int(x) for x in rng.integers(0, case["lmax"] + 1, size=4)] + [size, size + 1, 2 * size - 1]
            for k in range(case.get("nhist", 60)):
                ln = int(lens[int(rng.integers(len(lens)))])
                start = int(rng.integers(-20, 60))
                stop = start + ln
                got = []
                for r in range(size):
                    sim.set_rank(size, r)
                    with ctx.lib("block_distributed_range (history)"):
                        par.start_parallel_region()
                        it = list(qr.block_distributed_range(start, stop))
                        par.close_parallel_region()
                    got.append(it)
                flat = [x for it in got for x in it]
                sizes = [len(it) for it in got]
                ctx.require("partition", flat == list(range(start, stop)) and (max(sizes) - min(sizes) <= 1),
                            {"helper": "block_distributed_range", "size": size, "start": start, "stop": stop, "history_step": k,
                             "handed_out": got if len(flat) < 60 else sizes}, mechanism="partition")
                ctx.sub(("public-range-history", size, start, ln), nontrivial=(ln > 0 and size > 1))
            ctx.event("history_calls", case.get("nhist", 60))
        finally:
            sim.close()
        ctx.nontrivial(size > 1)
        ctx.key(("public", size))
        return

    if cls == "reduce":
        from quantarhei.qm import RedfieldRelaxationTensor, RedfieldRateMatrix
        desc = case["sys"]
        agg, time, cfs = build.make_aggregate(desc)
        ham = agg.get_Hamiltonian()
        sbi = agg.get_SystemBathInteraction()

        def f_tensor():
            R = RedfieldRelaxationTensor(ham, sbi)
            return numpy.array(R.data, copy=True)

        def f_ops():
            R = RedfieldRelaxationTensor(ham, sbi, as_operators=True)
            lm = numpy.array(R.Lm, copy=True)
            R.convert_2_tensor()
            return numpy.concatenate([lm.ravel(), numpy.array(R.data).ravel()])

        def f_rates():
            return numpy.array(RedfieldRateMatrix(ham, sbi).data, copy=True)

        with ctx.lib("serial Redfield construction"):
            serial = {"tensor": f_tensor(), "operators+convert": f_ops(), "rates": f_rates()}
        sim = Sim()
        try:
            for P in case["P"]:
                for name, fn in (("tensor", f_tensor), ("operators+convert", f_ops), ("rates", f_rates)):
                    with ctx.lib("Redfield construction on simulated rank"):
                        outs = sim.run(fn, P)
                    ref = serial[name]
                    scale = float(numpy.max(numpy.abs(ref))) or 1.0
                    for r, o in enumerate(outs):
                        res = float(numpy.max(numpy.abs(o - ref))) if o.shape == ref.shape else float("inf")
                        ctx.check("reduced==serial", res, 64 * numpy.finfo(float).eps * scale * max(1, desc["N"]),
                                  {"caller": name, "P": P, "rank": r, "N": desc["N"], "scale": scale})
                    ctx.event("collective_calls_resolved", len(sim.known))
                    ctx.sub(("reduce", name, P, desc["N"], tuple(desc["E"])), nontrivial=(P > 1 and desc["N"] > 1))
                    # the same construction called from inside a region the user has opened (e.g. a loop over disorder realisations):
                    # the library's own region is then nested, nothing is reduced there, and every rank must hold the serial result
                    def nested(fn=fn):
                        par.start_parallel_region()
                        try:
                            return fn()
                        finally:
                            par.close_parallel_region()
                    with ctx.lib("Redfield construction inside a user's parallel region"):
                        outs2 = sim.run(nested, P)
                    for r, o in enumerate(outs2):
                        res = float(numpy.max(numpy.abs(o - ref))) if o.shape == ref.shape else float("inf")
                        ctx.check("reduced==serial", res, 64 * numpy.finfo(float).eps * scale * max(1, desc["N"]),
                                  {"caller": name, "P": P, "rank": r, "N": desc["N"], "scale": scale, "called_from": "inside a user's parallel region (nested)"})
                    ctx.sub(("reduce-nested", name, P, desc["N"], tuple(desc["E"])), nontrivial=(P > 1 and desc["N"] > 1))
        finally:
            sim.close()
        ctx.nontrivial(desc["N"] > 1)
        ctx.key(("reduce", desc["N"], tuple(desc["E"])))
