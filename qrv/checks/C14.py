"""C14  Initial and thermal states are valid Boltzmann density matrices.

Every density matrix handed out by the builders is checked for finiteness,
Hermiticity and positivity; thermal ones against a log-domain Boltzmann
oracle (so ratios that underflow are compared as exponents); weak- and
strong-coupling excited-state equilibria are requested inside and outside a
basis context and compared as physical states.  Library calls run under a
floating-point-exception sentinel (numpy.errstate raise).
"""
import contextlib
import math
import numpy
from qrv import build
from qrv.build import r3
from qrv.oracles import units as U

LEVEL = "exploration"
RULE = ("aggregates of 1-4 two-level sites (optionally one vibrational mode on a site), optical (8000-25000 1/cm) and infrared-scale (200-2000 1/cm) energies, "
        "gaps 0-800 1/cm incl. exactly degenerate sites and inverted order (lowest site not first), couplings incl. zero, with/without baths; "
        "temperature ladder {0, 1e-3, 0.5, 1, 2, 5, 10, 20, 50, 77, 150, 300, 1000 K} plus log-uniform draws; conditions thermal, thermal_excited_state "
        "(weak, strong), impulsive_excitation, get_thermal_ReducedDensityMatrix (Molecule, Aggregate), get_excited_density_matrix. "
        "distinct = (condition, limit, N, temperature class, rounded system); non-trivial iff the system has at least two states in the populated band "
        "with different energies.")
RULE = RULE + " Round-6 workloads: every second molecule has two modes; molecular thermal states are also requested as the first thing inside eigenbasis_of(H)."
RULE = RULE + " Round-7 workloads: strong-coupling thermal excited states are also requested with a caller-supplied relaxation Hamiltonian (its energies used as given)."
ASSUMPTIONS = ["exciton bands are separated in energy (every ground-band level lies below every one-exciton level), as the band bookkeeping of the builders assumes",
               "requests are made outside units contexts (results that depend on the active units are not part of the statement)",
               "T=0 with exactly degenerate lowest states: see known finding (pinned by the repository's own test)",
               "positivity tolerance 1e-12, Boltzmann exponents compared to 1e-6 relative + 1e-9 absolute"]
MIN_NONTRIVIAL = {"quick": 150, "thorough": 1200}
REQUIRED_CLAUSES = ["finite", "hermitian", "positive", "unit-trace", "boltzmann-ratios", "inside==outside-context"]
TIMEOUT = {"quick": 900, "thorough": 3400}
LADDER = [0.0, 1e-3, 0.5, 1.0, 2.0, 5.0, 10.0, 20.0, 50.0, 77.0, 150.0, 300.0, 1000.0]


def gen_cases(tier, rng):
    cases = []
    n = 110 if tier == "quick" else 900
    for i in range(n):
        N = int(rng.integers(1, 5))
        ir = bool(rng.random() < 0.2)
        base = rng.uniform(500, 2000) if ir else rng.uniform(8000, 25000)
        E = [r3(base + rng.uniform(0, 800)) for _ in range(N)]
        if N >= 2:
            u = rng.random()
            if u < 0.2:
                E[1] = E[0]
            elif u < 0.5:
                E = sorted(E, reverse=True)          # lowest site last
        s = build.gen_system(rng, N=N, Nt=100, dt=1.0, zero_coupling=bool(rng.random() < 0.2), jmax=(30.0 if ir else 300.0))
        s["E"] = E
        T = float(LADDER[i % len(LADDER)]) if rng.random() < 0.8 else r3(10 ** rng.uniform(-2, 3))
        with_bath = bool(rng.random() < 0.75)
        mode = None
        if rng.random() < 0.25 and not ir:
            # the vibrational levels of the ground band stay below the lowest excited state (bands separated in energy)
            wmax = min(600.0, 0.5 * min(E))
            mode = {"site": int(rng.integers(N)), "omega": r3(rng.uniform(min(100.0, 0.5 * wmax), wmax)), "hr": r3(rng.uniform(0.05, 1.0)), "n0": 2, "n1": 2}
        cases.append({"cls": "aggregate", "sys": s, "T": T, "with_bath": with_bath, "mode": mode, "cost": 1 + N})
    # site-dependent baths whose reorganisation energies re-order the relaxed site energies (E_n - lambda_n), at zero and low temperature
    for i in range(6 if tier == "quick" else 40):
        N = 2 + i % 2
        s = build.gen_system(rng, N=N, Nt=100, dt=1.0, shared_bath=False, jmax=100.0, lam=(5.0, 40.0))
        e0 = r3(rng.uniform(10000, 15000))
        s["E"] = [e0 + 60.0 * k for k in range(N)]
        # the highest bare site relaxes the most: lowest relaxed energy on the last site
        for k in range(N):
            s["bath"][k] = dict(s["bath"][k], reorg=r3(10.0 + (k * rng.uniform(150.0, 260.0))))
        cases.append({"cls": "aggregate", "sys": s, "T": [0.0, 0.0, 1e-3, 5.0, 77.0, 0.0][i % 6], "with_bath": True, "mode": None, "cost": 2})
    # exactly degenerate relaxed site energies at T = 0 (shared bath): the listed known finding
    for i in range(2 if tier == "quick" else 8):
        N = 2 + i % 2
        s = build.gen_system(rng, N=N, Nt=100, dt=1.0, shared_bath=True, jmax=200.0)
        s["E"] = [s["E"][0]] * N
        cases.append({"cls": "aggregate", "sys": s, "T": 0.0, "with_bath": True, "mode": None, "cost": 2})
    nm = 30 if tier == "quick" else 200
    for i in range(nm):
        T = float(LADDER[i % len(LADDER)])
        cases.append({"cls": "molecule", "E": r3(rng.uniform(8000, 20000)), "omega": r3(rng.uniform(50, 800)), "hr": r3(rng.uniform(0.0, 1.5)),
                      "n": [int(rng.integers(1, 5)), int(rng.integers(1, 5))], "T": T, "cost": 1,
                      "mode2": ({"omega": r3(rng.uniform(40, 400)), "hr": r3(rng.uniform(0.0, 1.0)), "n": [int(rng.integers(2, 4)), int(rng.integers(1, 4))]} if i % 2 == 1 else None)})
    return cases


# ----------------------------------------------------------------------
def validity(ctx, rho, det, thermal=True):
    d = numpy.asarray(rho)
    ok = bool(numpy.all(numpy.isfinite(d)))
    ctx.require("finite", ok, det)
    if not ok:
        return False
    sc = max(float(numpy.max(numpy.abs(d))), 1e-300)
    ctx.check("hermitian", float(numpy.max(numpy.abs(d - d.conj().T))), 1e-12 * sc, det)
    w = numpy.linalg.eigvalsh((d + d.conj().T) / 2)
    ctx.check("positive", float(max(0.0, -w.min())), 1e-12 * sc, det)
    if thermal:
        ctx.check("unit-trace", abs(float(numpy.trace(d).real) - 1.0), 1e-12, det)
    return True


def log_boltzmann(energies, kT):
    """log populations by log-sum-exp; kT == 0 -> None (handled by caller)"""
    e = numpy.asarray(energies, dtype=float)
    x = -(e - e.min()) / kT
    lse = math.log(float(numpy.sum(numpy.exp(x))))
    return x - lse


def boltzmann_check(ctx, pops, energies, T, det, clause="boltzmann-ratios"):
    """pops: populations (real, >= 0) in the defining basis; energies: the energies they refer to"""
    pops = numpy.asarray(pops, dtype=float)
    e = numpy.asarray(energies, dtype=float)
    kT = U.KB_INT_PER_K * T
    if T == 0.0:
        lowest = numpy.flatnonzero(e == e.min())
        if len(lowest) > 1:
            # equal sharing is what the ratio exp(0) = 1 demands
            want = numpy.zeros(len(e))
            want[lowest] = 1.0 / len(lowest)
            ctx.check(clause, float(numpy.max(numpy.abs(pops - want))), 1e-12, dict(det, what="T=0, degenerate lowest states", pops=pops.tolist()),
                      mechanism="T0-degenerate-lowest")
        else:
            want = numpy.zeros(len(e))
            want[lowest[0]] = 1.0
            ctx.check(clause, float(numpy.max(numpy.abs(pops - want))), 1e-12, dict(det, what="T=0", pops=pops.tolist(), energies=e.tolist()))
        return
    lp = log_boltzmann(e, kT)
    # compare in the log domain where populations are representable, otherwise demand (near) zero
    # a population passes if it is right to 1e-13 absolute (rounding of a basis
    # rotation) or its exponent is right to 1e-6 relative (log domain)
    worst = 0.0
    for i in range(len(e)):
        want = math.exp(lp[i]) if lp[i] > -700.0 else 0.0
        r_abs = abs(pops[i] - want) / 1e-13
        if pops[i] > 0.0 and lp[i] > -700.0:
            r_log = abs(math.log(pops[i]) - lp[i]) / (1e-6 * abs(lp[i]) + 1e-9)
        else:
            r_log = float("inf")
        worst = max(worst, min(r_abs, r_log))
    ctx.check(clause, worst, 1.0, dict(det, pops=pops.tolist()[:8], log_expected=lp.tolist()[:8]))


def fp():
    """floating-point-exception sentinel (a fresh context each time)"""
    return numpy.errstate(divide="raise", invalid="raise", over="raise")


def site_rep(qr, rho_obj):
    """data of a density matrix read outside any context (site representation)"""
    return numpy.array(rho_obj.data, copy=True)


def run_case(case, ctx):
    import quantarhei as qr

    if case["cls"] == "molecule":
        with qr.energy_units("1/cm"):
            mo = qr.Molecule([0.0, case["E"]])
            md = qr.Mode(case["omega"])
        mo.add_Mode(md)
        md.set_nmax(0, case["n"][0])
        md.set_nmax(1, case["n"][1])
        md.set_HR(1, case["hr"])
        if case.get("mode2"):
            m2 = case["mode2"]
            with qr.energy_units("1/cm"):
                md2 = qr.Mode(m2["omega"])
            mo.add_Mode(md2)
            md2.set_nmax(0, m2["n"][0])
            md2.set_nmax(1, m2["n"][1])
            md2.set_HR(1, m2["hr"])
        T = case["T"]
        if T > 0:
            t = qr.TimeAxis(0.0, 100, 1.0)
            cf = build.make_cf(t, {"ftype": "OverdampedBrownian", "reorg": 20.0, "cortime": 50.0, "T": T})
            mo.set_transition_environment((0, 1), cf)
        det = {"what": "Molecule.get_thermal_ReducedDensityMatrix", "T": T, "n": case["n"]}
        with ctx.lib("Molecule.get_thermal_ReducedDensityMatrix", mechanism=None):
            with fp():
                rho = mo.get_thermal_ReducedDensityMatrix()
            H = mo.get_Hamiltonian()
            d = numpy.array(rho.data)
            Hd = numpy.array(H.data, dtype=float)
        if validity(ctx, d, det):
            w, S = numpy.linalg.eigh(Hd)
            pe = numpy.real(numpy.diag(S.T @ d @ S))
            off = S.T @ d @ S - numpy.diag(pe)
            ctx.check("boltzmann-ratios", float(numpy.max(numpy.abs(off))), 1e-10, dict(det, what2="diagonal in the eigenbasis"))
            boltzmann_check(ctx, pe, w, T, det)
        # the same state requested inside the eigenbasis context of the molecule's Hamiltonian (first thing done there): the same physical
        # state, read after the context is left
        with ctx.lib("Molecule.get_thermal_ReducedDensityMatrix inside eigenbasis_of(H)", mechanism=None):
            with fp():
                with qr.eigenbasis_of(H):
                    rho_in = mo.get_thermal_ReducedDensityMatrix()
            d_in = numpy.array(rho_in.data)
        if validity(ctx, d_in, dict(det, where="inside eigenbasis_of(H)")):
            ctx.check("inside==outside-context", float(numpy.max(numpy.abs(d_in - d))), 1e-10,
                      dict(det, what="thermal state of a molecule requested inside eigenbasis_of(H) vs outside, both read outside", modes=2 if case.get("mode2") else 1))
        ctx.key(("molecule", tuple(case["n"]), T, case["omega"]))
        ctx.nontrivial(sum(case["n"]) >= 2)
        return

    # ------------------------------------------------------------ aggregate
    desc = case["sys"]
    N = desc["N"]
    T = case["T"]
    with ctx.lib("aggregate construction"):
        t = build.timeaxis(desc)
        with qr.energy_units("1/cm"):
            mols = [qr.Molecule([0.0, float(desc["E"][i])]) for i in range(N)]
        cfs = []
        if case["with_bath"]:
            Tb = T if T > 0 else 300.0
            for i, m in enumerate(mols):
                b = dict(desc["bath"][i], T=Tb, ftype="OverdampedBrownian")
                cf = build.make_cf(t, b)
                cfs.append(cf)
                m.set_transition_environment((0, 1), cf)
        if case["mode"] is not None:
            md_ = case["mode"]
            with qr.energy_units("1/cm"):
                md = qr.Mode(md_["omega"])
            mols[md_["site"]].add_Mode(md)
            md.set_nmax(0, md_["n0"])
            md.set_nmax(1, md_["n1"])
            md.set_HR(1, md_["hr"])
        for m, dd in zip(mols, desc["dip"]):
            m.set_dipole(0, 1, [float(x) for x in dd])
        agg = qr.Aggregate(molecules=mols)
        J = numpy.array(desc["J"])
        with qr.energy_units("1/cm"):
            for a in range(N):
                for b in range(a + 1, N):
                    if J[a, b] != 0:
                        agg.set_resonance_coupling(a, b, float(J[a, b]))
        agg.build()
        Hobj = agg.get_Hamiltonian()
        H = numpy.array(Hobj.data, dtype=float)
        nb0 = int(agg.Nb[0])
        # what was done with the aggregate before the states are requested (spectroscopic calculators diagonalize it implicitly)
        pre = ["none", "diagonalize", "none"][case.get("id", 0) % 3]
        if pre == "diagonalize":
            agg.diagonalize()
            ctx.event("aggregates_diagonalized_before_the_requests")
    dim = H.shape[0]
    base = {"N": N, "T": T, "with_bath": case["with_bath"], "mode": case["mode"] is not None, "E": desc["E"], "before": pre}
    Hex = H[nb0:, nb0:]
    nontriv = (dim - nb0) >= 2 and float(numpy.ptp(numpy.linalg.eigvalsh(Hex))) > 0

    # --- thermal (whole Hamiltonian, populations of the diagonal energies)
    det = dict(base, condition="thermal")
    with ctx.lib("get_DensityMatrix(thermal)", mechanism=None):
        with fp():
            r = agg.get_DensityMatrix(condition_type="thermal", temperature=T)
        d = site_rep(qr, r)
    d_thermal_first = d.copy()
    if validity(ctx, d, det):
        boltzmann_check(ctx, numpy.real(numpy.diag(d)), numpy.diag(H), T, det)
        ctx.check("boltzmann-ratios", float(numpy.max(numpy.abs(d - numpy.diag(numpy.diag(d))))), 1e-14, dict(det, what="diagonal state"))
    ctx.sub(("thermal", N, T, tuple(desc["E"])), nontrivial=dim >= 2)

    # --- thermal_excited_state, strong coupling (site equilibrium, relaxed site energies)
    if case["with_bath"]:
        det = dict(base, condition="thermal_excited_state", limit="strong_coupling")
        results = {}
        for where in ("outside", "inside"):
            cm = contextlib.nullcontext() if where == "outside" else qr.eigenbasis_of(Hobj)
            try:
                with ctx.lib("get_DensityMatrix(thermal_excited_state, strong_coupling, %s a basis context)" % where, mechanism=None):
                    with cm:
                        with fp():
                            r = agg.get_DensityMatrix(condition_type="thermal_excited_state", relaxation_theory_limit="strong_coupling", temperature=T)
                    results[where] = site_rep(qr, r)
            except Exception:
                if where == "outside":
                    raise
        d = results["outside"]
        if validity(ctx, d, dict(det, where="outside")):
            lam = numpy.zeros(dim - nb0)
            # relaxed site energies E_n - lambda_n (vibrational sub-levels share the site's lambda)
            vsig = [tuple(int(x) for x in e) for (e, v) in agg.vibsigs]
            for i in range(int(agg.Nb[1])):
                site = vsig[nb0 + i].index(1)
                lam[i] = float(cfs[site].lamb)
            en = numpy.diag(H)[nb0:] - lam
            boltzmann_check(ctx, numpy.real(numpy.diag(d))[nb0:], en, T, det)
            ctx.check("boltzmann-ratios", float(numpy.max(numpy.abs(numpy.real(numpy.diag(d))[:nb0]))), 0.0, dict(det, what="ground-state band empty"))
            ctx.check("boltzmann-ratios", float(numpy.max(numpy.abs(d - numpy.diag(numpy.diag(d))))), 1e-14, dict(det, what="diagonal in the site basis"))
        if "inside" in results and validity(ctx, results["inside"], dict(det, where="inside")):
            ctx.check("inside==outside-context", float(numpy.max(numpy.abs(results["inside"] - d))), 1e-10,
                      dict(det, what="site equilibrium requested inside eigenbasis_of(H) vs outside, both read in the site basis"),
                      mechanism="strong-coupling-inside-context")
        # the same request with a relaxation Hamiltonian supplied by the caller: its site energies are used as they are given
        # (documented: reorganisation energies are assumed to be removed already)
        Hsup_d = numpy.array(H, dtype=float).copy()
        lam_all = numpy.zeros(dim - nb0)
        vsig_ = [tuple(int(x) for x in e) for (e, v) in agg.vibsigs]
        for i_ in range(int(agg.Nb[1])):
            lam_all[i_] = float(cfs[vsig_[nb0 + i_].index(1)].lamb)
        Hsup_d[numpy.arange(nb0, dim), numpy.arange(nb0, dim)] += numpy.array([((7 * k + 3) % 5 - 2) * 0.35 for k in range(dim - nb0)]) * float(numpy.max(lam_all) or 1e-3)
        with ctx.lib("get_DensityMatrix(thermal_excited_state, strong_coupling, relaxation_hamiltonian=...)", mechanism=None):
            with fp():
                Hsup = qr.Hamiltonian(data=Hsup_d.copy())
                r = agg.get_DensityMatrix(condition_type="thermal_excited_state", relaxation_theory_limit="strong_coupling", temperature=T, relaxation_hamiltonian=Hsup)
            d_s = site_rep(qr, r)
        dets = dict(det, relaxation_hamiltonian="supplied")
        if validity(ctx, d_s, dets):
            boltzmann_check(ctx, numpy.real(numpy.diag(d_s))[nb0:], numpy.diag(Hsup_d)[nb0:], T, dets)
        ctx.sub(("tes-strong", N, T, tuple(desc["E"])), nontrivial=nontriv)

    # --- thermal_excited_state, weak coupling (excitonic equilibrium)
    det = dict(base, condition="thermal_excited_state", limit="weak_coupling")
    res = {}
    for where in ("outside", "inside"):
        cm = contextlib.nullcontext() if where == "outside" else qr.eigenbasis_of(Hobj)
        with ctx.lib("get_DensityMatrix(thermal_excited_state, weak_coupling, %s a basis context)" % where, mechanism=None):
            with cm:
                with fp():
                    r = agg.get_DensityMatrix(condition_type="thermal_excited_state", relaxation_theory_limit="weak_coupling", temperature=T)
            res[where] = site_rep(qr, r)
    w, S = numpy.linalg.eigh(H)
    # eigenvectors belonging to the excited band
    for where in ("outside", "inside"):
        d = res[where]
        if not validity(ctx, d, dict(det, where=where)):
            continue
        de = S.T @ d @ S
        pe = numpy.real(numpy.diag(de))
        exc = [k for k in range(dim) if float(numpy.sum(S[nb0:, k] ** 2)) > 0.5]
        gpop = float(sum(pe[k] for k in range(dim) if k not in exc))
        ctx.check("boltzmann-ratios", gpop, 1e-12, dict(det, where=where, what="ground band empty"))
        degenerate = len(exc) >= 2 and float(numpy.min(numpy.diff(numpy.sort(w[exc])))) < 1e-9 * max(1.0, abs(w[exc][0]))
        if not degenerate:
            boltzmann_check(ctx, pe[exc], w[exc], T, dict(det, where=where))
            ctx.check("boltzmann-ratios", float(numpy.max(numpy.abs(de - numpy.diag(numpy.diag(de))))), 1e-10, dict(det, where=where, what="diagonal in the exciton basis"))
        else:
            ctx.event("degenerate_exciton_levels_skipped")
    ctx.check("inside==outside-context", float(numpy.max(numpy.abs(res["inside"] - res["outside"]))), 1e-10,
              dict(det, what="excitonic equilibrium requested inside eigenbasis_of(H) vs outside, both read in the site basis"))
    ctx.sub(("tes-weak", N, T, tuple(desc["E"])), nontrivial=nontriv)

    # --- impulsive excitation
    det = dict(base, condition="impulsive_excitation")
    with ctx.lib("get_DensityMatrix(impulsive_excitation)", mechanism=None):
        with fp():
            r = agg.get_DensityMatrix(condition_type="impulsive_excitation", temperature=T)
        d = site_rep(qr, r)
    validity(ctx, d, det, thermal=False)
    ctx.require("impulsive-nonzero", float(numpy.max(numpy.abs(d))) > 0, det)
    # --- reduced density matrices of the OpenSystem interface
    with ctx.lib("Aggregate.get_thermal_ReducedDensityMatrix", mechanism=None):
        with fp():
            r = agg.get_thermal_ReducedDensityMatrix()
        d = site_rep(qr, r)
    Tsys = float(agg.get_temperature())
    det = dict(base, condition="get_thermal_ReducedDensityMatrix", T_system=Tsys)
    if validity(ctx, d, det):
        de = S.T @ d @ S
        if not (dim >= 2 and float(numpy.min(numpy.diff(w))) < 1e-9 * max(1.0, abs(w[-1]))):
            boltzmann_check(ctx, numpy.real(numpy.diag(de)), w, Tsys, det)
    with ctx.lib("get_excited_density_matrix", mechanism=None):
        with fp():
            r = agg.get_excited_density_matrix()
        d = site_rep(qr, r)
    validity(ctx, d, dict(base, condition="get_excited_density_matrix"), thermal=False)
    # the same aggregate asked for other temperatures, then for the first one again: every answer belongs to the temperature requested
    T2 = float("%.4g" % (2.0 * T + 25.0))
    for Tq, label in ((T2, "another temperature on the same aggregate"), (T, "the first temperature again")):
        detq = dict(base, condition="thermal", T=Tq, history=label)
        with ctx.lib("get_DensityMatrix(thermal) " + label, mechanism=None):
            with fp():
                rq = agg.get_DensityMatrix(condition_type="thermal", temperature=Tq)
            dq = site_rep(qr, rq)
        if validity(ctx, dq, detq):
            boltzmann_check(ctx, numpy.real(numpy.diag(dq)), numpy.diag(H), Tq, detq)
        detw = dict(base, condition="thermal_excited_state", limit="weak_coupling", T=Tq, history=label)
        with ctx.lib("get_DensityMatrix(thermal_excited_state) " + label, mechanism=None):
            with fp():
                rq = agg.get_DensityMatrix(condition_type="thermal_excited_state", relaxation_theory_limit="weak_coupling", temperature=Tq)
            dq2 = site_rep(qr, rq)
        if validity(ctx, dq2, detw):
            de = S.T @ dq2 @ S
            pe = numpy.real(numpy.diag(de))
            exc = [k for k in range(dim) if float(numpy.sum(S[nb0:, k] ** 2)) > 0.5]
            if not (len(exc) >= 2 and float(numpy.min(numpy.diff(numpy.sort(w[exc])))) < 1e-9 * max(1.0, abs(w[exc][0]))):
                boltzmann_check(ctx, pe[exc], w[exc], Tq, detw)
        if Tq == T:
            # (in-place basis round trips of the Hamiltonian in between leave rounding noise in its data)
            ctx.check("boltzmann-ratios", float(numpy.max(numpy.abs(dq - d_thermal_first))), 1e-10, dict(detq, what="same request repeated after other requests"))
            ctx.check("boltzmann-ratios", float(numpy.max(numpy.abs(dq2 - res["outside"]))), 1e-10, dict(detw, what="same request repeated after other requests"))
    ctx.key(("agg", N, T, case["with_bath"], case["mode"] is not None, tuple(desc["E"])))
    ctx.nontrivial(nontriv)
