"""C06  Rates and bath functions obey detailed balance and conserve probability.

Real RedfieldRateMatrix / FoersterRateMatrix objects, the Redfield tensor read in
the eigenstate basis, SpectralDensity and the Fourier-transformed correlation
function are observed for random aggregates inside the frequency window the
time axis resolves.  Structural clauses are exact (rounding); golden-rule
clauses use (tight) an independent per-exponential / Simpson integration of
the very correlation function the library holds, and (loose) the analytic
(1+coth) J(w) with tolerances calibrated on the unchanged tree.
"""
import math
import numpy
from qrv import build
from qrv.build import r3
from qrv.oracles import bath as B
from qrv.oracles import units as U

LEVEL = "exploration"
RULE = ("aggregates of 2-5 sites, gaps 20-800 1/cm, couplings 10-300 1/cm (Foerster cases 5-60), overdamped baths lambda 5-100 1/cm, tau 30-150 fs, "
        "T in {77, 150, 300, 350} K and uniform draws 77-400 K, time axes dt 0.5-2 fs with Tmax >= 8 tau (half of the cases in the high-temperature "
        "stratum T >= 250 K with lambda 50-100); the eigenstate-basis tensor reached by four routes (tensor form; operator form converted in a later context, outside, or after a read); spectral-density / FT cases on axes of 200-2000 points. distinct = (class, N, rounded gaps, bath, T, axis); "
        "non-trivial iff at least one downhill rate exceeds 1e-6 1/fs (rates) resp. the function has more than 20 resolved points (symmetry).")
RULE = RULE + " Round-6 workloads: directed Foerster cases: equal bare site energies with different baths, and two equal gaps with the baths swapped."
RULE = RULE + " Round-7 workloads: in every second Redfield case the time-dependent rates are computed first from the same Hamiltonian and system-bath interaction objects."
ASSUMPTIONS = ["all transition frequencies lie inside the 3000 1/cm cut-off the rate code hard-wires and below half the Nyquist frequency of the axis",
               "tight golden-rule tolerance 2e-3 relative (+1e-7 of the largest rate): quadrature difference between spline/FFT and the analytic half-Fourier "
               "transform of the same exponentials; loose tolerances are calibrated (3x the worst deviation seen on the unchanged tree) and stratified by temperature",
               "time-dependent rate matrices are compared with the time-independent ones at their last time index only"]
MIN_NONTRIVIAL = {"quick": 60, "thorough": 400}
REQUIRED_CLAUSES = ["redfield-nonnegative", "redfield-colsum", "redfield-ground", "redfield-detailed-balance", "golden-rule-tight(matrix)",
                    "golden-rule-tight(tensor)", "golden-rule-analytic", "foerster-colsum", "foerster-detailed-balance", "spectral-density-odd",
                    "ft-correlation-detailed-balance"]
TIMEOUT = {"quick": 900, "thorough": 3400}
EPS = numpy.finfo(float).eps

# calibrated on the unchanged tree (see DESIGN.md C06); (T_low, T_high): tolerance
# golden rule vs analytic (1+coth)J: worst relative deviation seen on the unchanged tree over 267 systems was
# 0.021 (T>=250 K), 0.036 (150-250 K), 0.070 (77-150 K): Matsubara truncation (10 terms) and 1 fs sampling
LOOSE_GOLDEN = [(250.0, 1e9, 0.06), (150.0, 250.0, 0.11), (0.0, 150.0, 0.21)]
# Foerster detailed balance |ln(k_ab/k_ba) - x| <= a0 + a1|x| for |x| <= 4: worst seen at T >= 250 K over ~2000 systems was
# 0.011 (0.004 (1+|x|)); between 200 and 250 K deviations up to 0.23 occur (small reorganisation energies, dt = 2 fs); below 250 K the numerical integral (single-precision line shapes, truncated Matsubara sum) misses
# the relation by O(1) and the clause is not evaluated there
FOERSTER_DB = [(250.0, 1e9, (0.05, 0.05))]
FOERSTER_DB_TMIN = 250.0


def strat(table, T):
    for lo, hi, v in table:
        if lo <= T < hi:
            return v
    return table[-1][2]


def gen_cases(tier, rng):
    cases = []
    # weakly coupled chains and a symmetric star with ONE bath object shared by all sites: exciton states localised away from the first site,
    # pairs of states that a single site hardly couples - the time-dependent rates must still reach their golden-rule values
    for i in range(4 if tier == "quick" else 24):
        N = 3 + i % 2
        T = float([300.0, 200.0, 350.0][i % 3])
        s = build.gen_system(rng, N=N, T=T, dt=1.0, dipoles=False, shared_bath=True, jmax=200.0, spread=300.0, lam=(40.0, 100.0), tau=(40.0, 120.0))
        e0 = r3(rng.uniform(11000, 13000))
        if i % 4 == 3:
            # star: site 0 in the middle, equal couplings to equivalent outer sites
            s["E"] = [e0] + [e0 + 120.0] * (N - 1)
            J = numpy.zeros((N, N))
            for k in range(1, N):
                J[0, k] = J[k, 0] = 70.0
        else:
            s["E"] = [e0 + r3(k * rng.uniform(120.0, 200.0)) for k in range(N)]
            J = numpy.zeros((N, N))
            for k in range(N - 1):
                J[k, k + 1] = J[k + 1, k] = r3(rng.uniform(20.0, 45.0))
        s["J"] = J.tolist()
        for b in s["bath"]:
            b["ftype"] = "OverdampedBrownian"
        s["Nt"] = int(min(1500, max(600, 14 * max(b["cortime"] for b in s["bath"]))))      # the bath function has decayed on the axis
        cases.append({"cls": "redfield", "sys": s, "force_td": True, "cost": 2 + N * 6})
    n = 60 if tier == "quick" else 400
    for i in range(n):
        N = int(rng.integers(2, 6 if tier == "thorough" else 5))
        hiT = (i % 2 == 0)
        T = float(rng.choice([300.0, 350.0, 400.0])) if hiT and rng.random() < 0.6 else (r3(rng.uniform(250, 400)) if hiT else
                                                                                          (float(rng.choice([77.0, 150.0])) if rng.random() < 0.5 else r3(rng.uniform(77, 250))))
        foerster = (i % 3 == 2)
        lam = (50.0, 100.0) if hiT else (5.0, 100.0)
        s = build.gen_system(rng, N=N, T=T, dt=float(rng.choice([0.5, 1.0, 1.0, 2.0])), dipoles=False,
                             jmax=(60.0 if foerster else 200.0), spread=(500.0 if not foerster else 300.0), lam=lam, tau=(30.0, 150.0))
        for b in s["bath"]:
            b["ftype"] = "OverdampedBrownian"
        taumax = max(b["cortime"] for b in s["bath"])
        s["Nt"] = int(max(8.5 * taumax, 400.0) / s["dt"]) + int(rng.integers(0, 200))
        # keep gaps inside 20..800 1/cm
        E0 = s["E"][0]
        s["E"] = [r3(E0 + k * rng.uniform(20, 500.0 / max(1, N - 1))) for k in range(N)]
        rng.shuffle(s["E"])
        s["E"] = [float(x) for x in s["E"]]
        cases.append({"cls": "foerster" if foerster else "redfield", "sys": s, "cost": 2 + N * s["Nt"] / 400.0})
    # Foerster transfer between sites with EQUAL bare energies but different baths (the relaxed energies differ by the reorganisation
    # energies only), and 4-site systems with two equal gaps and the baths swapped between the pairs
    for i in range(6 if tier == "quick" else 40):
        N = [2, 3, 4][i % 3]
        T = float([300.0, 350.0, 260.0][i % 3])
        s = build.gen_system(rng, N=N, T=T, dt=1.0, dipoles=False, jmax=60.0, spread=300.0, lam=(20.0, 140.0), tau=(30.0, 150.0))
        e0 = r3(rng.uniform(11500, 12500))
        lamA, lamB = r3(rng.uniform(20.0, 50.0)), r3(rng.uniform(100.0, 150.0))
        tauA, tauB = r3(rng.uniform(40.0, 70.0)), r3(rng.uniform(90.0, 140.0))
        A = {"ftype": "OverdampedBrownian", "reorg": lamA, "cortime": tauA, "T": T}
        Bb = {"ftype": "OverdampedBrownian", "reorg": lamB, "cortime": tauB, "T": T}
        if N == 4:
            s["E"] = [e0, e0 + 100.0, e0, e0 + 100.0]
            s["bath"] = [dict(A), dict(Bb), dict(Bb), dict(A)]
        else:
            s["E"] = [e0] * N
            s["bath"] = [dict(A), dict(Bb), dict(A)][:N]
        s["Nt"] = int(max(8.5 * max(tauA, tauB), 400.0)) + int(rng.integers(0, 200))
        s["shared_bath"] = False
        cases.append({"cls": "foerster", "sys": s, "directed": "equal-energies-different-baths", "cost": 2 + N * s["Nt"] / 400.0})
    ns = 24 if tier == "quick" else 160
    for i in range(ns):
        T = r3(rng.uniform(77, 400))
        cases.append({"cls": "bath-symmetry", "bath": {"ftype": "OverdampedBrownian", "reorg": r3(rng.uniform(5, 150)), "cortime": r3(rng.uniform(20, 200)), "T": T},
                      "Nt": int(rng.integers(200, 2000)), "dt": float(rng.choice([0.5, 1.0, 2.0])), "two": bool(rng.random() < 0.4),
                      "bath2": {"ftype": "OverdampedBrownian", "reorg": r3(rng.uniform(5, 150)), "cortime": r3(rng.uniform(20, 200)), "T": T}, "cost": 1})
    return cases


def run_case(case, ctx):
    import quantarhei as qr
    cls = case["cls"]
    if cls == "bath-symmetry":
        t = qr.TimeAxis(0.0, case["Nt"], case["dt"])
        b = case["bath"]
        with ctx.lib("SpectralDensity / FTCorrelationFunction"):
            sd = build.make_cf(t, b, cls="SpectralDensity")
            if case["two"]:
                sd = sd + build.make_cf(t, case["bath2"], cls="SpectralDensity")
            sdat = numpy.array(sd.data)
            w = numpy.array(sd.axis.data)
            ft = sd.get_FTCorrelationFunction()
            fdat = numpy.array(ft.data)
            fw = numpy.array(ft.axis.data)
            cf = build.make_cf(t, b)
            ft2 = cf.get_FTCorrelationFunction()
            f2 = numpy.array(ft2.data)
            w2 = numpy.array(ft2.axis.data)
        n = len(w)
        ctx.check("spectral-density-odd", float(numpy.max(numpy.abs(w[1:] + w[1:][::-1]))), 1e-9 * float(numpy.max(numpy.abs(w))), {"what": "axis symmetric"})
        sc = float(numpy.max(numpy.abs(sdat)))
        ctx.check("spectral-density-odd", float(numpy.max(numpy.abs(sdat[1:] + sdat[1:][::-1]))), 1e-8 * sc, {"bath": b, "two": case["two"], "scale": sc})
        ctx.require("spectral-density-odd", sc > 0, {"why": "identically zero"})
        # analytic value of J on the grid (declared parameters)
        lam = b["reorg"] * U.E_FAC["1/cm"]
        Jref = B.J(w, lam, b["cortime"])
        if case["two"]:
            Jref = Jref + B.J(w, case["bath2"]["reorg"] * U.E_FAC["1/cm"], case["bath2"]["cortime"])
        ctx.check("spectral-density==analytic", float(numpy.max(numpy.abs(sdat - Jref))), 1e-7 * sc, {"bath": b})
        kT = U.KB_INT_PER_K * b["T"]
        # (the statement claims the relation for the function derived from a spectral density; the FFT of the
        #  sampled, Matsubara-truncated C(t) only approximates it and is not judged)
        for name, f, ww in (("from SpectralDensity", fdat, fw),):
            f = numpy.real(f)
            fs = float(numpy.max(numpy.abs(f)))
            pos = f[1:]
            neg = f[1:][::-1]
            wp = ww[1:]
            # C(-w) = exp(-w/kT) C(w) on grid points w_k = -w_{N-k}; compare where both are representable
            sel = (wp > 0) & (wp / kT < 30.0)
            res = float(numpy.max(numpy.abs(neg[sel] - numpy.exp(-wp[sel] / kT) * pos[sel]))) if sel.any() else 0.0
            tol = 1e-7 * fs if name == "from SpectralDensity" else 2e-2 * fs
            ctx.check("ft-correlation-detailed-balance", res, tol, {"source": name, "bath": b, "scale": fs, "points": int(sel.sum())})
        # one spectral density object asked for bath functions at a sequence of temperatures (with or without a temperature of its own,
        # or derived from a correlation function): each answer obeys the relation at the REQUESTED temperature
        if not case["two"]:
            Ts = [float("%.4g" % (b["T"] * f)) for f in (0.45, 1.9, 1.0, 0.7)]
            srcs = []
            with ctx.lib("spectral densities for the temperature sweep"):
                srcs.append(("SpectralDensity with T", build.make_cf(t, b, cls="SpectralDensity")))
                with qr.energy_units("1/cm"):
                    srcs.append(("SpectralDensity without T", qr.SpectralDensity(t, {"ftype": b["ftype"], "reorg": b["reorg"], "cortime": b["cortime"]})))
                srcs.append(("CorrelationFunction.get_SpectralDensity()", build.make_cf(t, b).get_SpectralDensity()))
            for sname, sdx in srcs:
                for T2 in Ts:
                    try:
                        with ctx.lib("get_FTCorrelationFunction(temperature=) [%s]" % sname):
                            ftx = sdx.get_FTCorrelationFunction(temperature=T2)
                            fx = numpy.real(numpy.array(ftx.data))
                            wx = numpy.array(ftx.axis.data)
                            cfx = sdx.get_CorrelationFunction(temperature=T2)
                            Tlab = float(cfx.get_temperature())
                    except Exception as e:
                        if type(e).__name__ == "LibRaised":
                            break
                        raise
                    kT2 = U.KB_INT_PER_K * T2
                    fs = float(numpy.max(numpy.abs(fx)))
                    pos, neg, wp = fx[1:], fx[1:][::-1], wx[1:]
                    sel = (wp > 0) & (wp / kT2 < 30.0)
                    res = float(numpy.max(numpy.abs(neg[sel] - numpy.exp(-wp[sel] / kT2) * pos[sel]))) if sel.any() else 0.0
                    ctx.check("ft-correlation-detailed-balance", res, 1e-7 * fs, {"source": sname, "bath": b, "requested_T": T2, "scale": fs, "sweep": Ts})
                    ctx.check("ft-correlation-detailed-balance", abs(Tlab - T2), 1e-9 * T2, {"source": sname, "what": "temperature carried by get_CorrelationFunction(temperature=)", "requested_T": T2, "got": Tlab})
                    # odd part = spectral density whatever the temperature
                    # (the object's own J(w): a density derived numerically from a correlation function is not the analytic one)
                    Jown = numpy.real(numpy.array(sdx.data))[1:]
                    ctx.check("ft-correlation-detailed-balance", float(numpy.max(numpy.abs((pos - neg) / 2.0 - Jown))), 1e-7 * fs,
                              {"source": sname, "what": "odd part of the FT correlation function == the density's own J(w)", "requested_T": T2})
                    ctx.sub(("T-sweep", sname, T2), nontrivial=True)
        ctx.key(("bath", b["reorg"], b["cortime"], b["T"], case["Nt"], case["dt"], case["two"]))
        ctx.nontrivial(n > 20)
        return

    # ------------------------------------------------------------- systems
    desc = case["sys"]
    N = desc["N"]
    T = desc["T"]
    kT = U.KB_INT_PER_K * T
    with ctx.lib("aggregate construction"):
        agg, t, cfs = build.make_aggregate(desc)
        ham = agg.get_Hamiltonian()
        H = numpy.array(ham.data, dtype=float)
    tt = numpy.array(t.data)
    tmax = float(tt[-1])
    w, S = numpy.linalg.eigh(H)
    det = {"N": N, "T": T, "dt": desc["dt"], "Nt": desc["Nt"]}
    lam = [b["reorg"] * U.E_FAC["1/cm"] for b in desc["bath"]]
    tau = [b["cortime"] for b in desc["bath"]]
    kind = [b["ftype"] for b in desc["bath"]]

    if cls == "redfield":
        with ctx.lib("RedfieldRateMatrix / Redfield tensor"):
            if len(desc["E"]) % 2 == 0 or int(desc["Nt"]) % 2 == 0:
                # a program that looks at the time-dependent rates first and at the stationary quantities afterwards, all from
                # the same Hamiltonian and system-bath interaction objects
                from quantarhei.qm import TDRedfieldRateMatrix as _TDR
                _TDR(ham, agg.get_SystemBathInteraction())
                ctx.event("redfield_cases_with_td_rates_computed_first")
            RR = numpy.array(agg.get_RedfieldRateMatrix().data, dtype=float)
            from quantarhei.qm import RedfieldRateMatrix
            RR2 = numpy.array(RedfieldRateMatrix(ham, agg.get_SystemBathInteraction()).data, dtype=float)
            R, hR = agg.get_RelaxationTensor(t, relaxation_theory="stR")
            with qr.eigenbasis_of(hR):
                Rfull = numpy.array(R.data)
                RT = numpy.real(numpy.einsum("aabb->ab", Rfull)).copy()
            Rscale = float(numpy.max(numpy.abs(Rfull)))
        # the same rates whichever way the program arrived at the tensor in the eigenstate basis (R above: built in tensor form by the library's idiom): built in the operator
        # form by the library's own idiom and converted later, the conversion being the first thing done with it in a new context;
        # converted outside any context
        from quantarhei.qm import RedfieldRelaxationTensor
        sbi_ = agg.get_SystemBathInteraction()
        routes = {}
        with ctx.lib("Redfield tensor (other routes to the eigenstate-basis tensor)"):
            ham.protect_basis()
            with qr.eigenbasis_of(ham):
                R2 = RedfieldRelaxationTensor(ham, sbi_, as_operators=True)
            ham.unprotect_basis()
            with qr.eigenbasis_of(ham):
                R2.convert_2_tensor()
                routes["operators, converted in a later context"] = numpy.real(numpy.einsum("aabb->ab", numpy.array(R2.data)))
            ham.protect_basis()
            with qr.eigenbasis_of(ham):
                R3 = RedfieldRelaxationTensor(ham, sbi_, as_operators=True)
                R4 = RedfieldRelaxationTensor(ham, sbi_, as_operators=True)
            ham.unprotect_basis()
            R3.convert_2_tensor()
            with qr.eigenbasis_of(ham):
                routes["operators, converted outside"] = numpy.real(numpy.einsum("aabb->ab", numpy.array(R3.data)))
            with qr.eigenbasis_of(ham):
                R4.Km
                R4.convert_2_tensor()
            with qr.eigenbasis_of(ham):
                routes["operators, converted inside, read in another visit"] = numpy.real(numpy.einsum("aabb->ab", numpy.array(R4.data)))
        for rname, rt in routes.items():
            ctx.check("golden-rule-tight(tensor)", float(numpy.max(numpy.abs(rt - RT))), 1e-9 * Rscale, dict(det, what="population rates of the tensor, route: " + rname))
        dim = N + 1
        sc = float(numpy.max(numpy.abs(RR))) or 1e-300
        off = RR - numpy.diag(numpy.diag(RR))
        ctx.check("redfield-nonnegative", float(max(0.0, -off.min())), 0.0, det)
        ctx.check("redfield-colsum", float(numpy.max(numpy.abs(RR.sum(axis=0)))), 64 * EPS * sc * dim, det)
        ctx.check("redfield-ground", float(max(numpy.max(numpy.abs(RR[0, :])), numpy.max(numpy.abs(RR[:, 0])))), 0.0, det)
        ctx.check("redfield-direct==OpenSystem", float(numpy.max(numpy.abs(RR - RR2))), 1e-12 * sc, det)
        worst = 0.0
        wdet = None
        any_down = False
        for a in range(1, dim):
            for b in range(1, dim):
                if a == b:
                    continue
                # detailed balance k(a<-b)/k(b<-a) = exp(-(E_a-E_b)/kT)
                # (a slow uphill partner of a resolved downhill rate is part of the relation however small it is,
                #  as long as it is representable)
                x = -(w[a] - w[b]) / kT
                if RR[b, a] > 1e-12 * sc and (RR[a, b] > 1e-12 * sc or (x < 0 and RR[b, a] * math.exp(max(x, -700.0)) > 1e-250)):
                    if RR[a, b] > 0:
                        r = abs(math.log(RR[a, b] / RR[b, a]) - x) / (1e-6 * (1 + abs(x)))
                    else:
                        r = float("inf")
                    if r > worst:
                        worst, wdet = r, (a, b, RR[a, b], RR[b, a], x)
        ctx.check("redfield-detailed-balance", worst, 1.0, dict(det, worst=wdet))
        # golden rule for downhill rates
        tight_m = tight_t = loose = 0.0
        dm = dt_ = dl = None
        tol_loose = strat(LOOSE_GOLDEN, T)
        for a in range(1, dim):
            for b in range(1, dim):
                if w[b] > w[a] + 1e-9:
                    om = w[b] - w[a]
                    if om * desc["dt"] > 0.16:
                        # outside the frequency window the time step resolves (quantifier)
                        ctx.event("pairs_outside_resolved_window")
                        continue
                    ana = 0.0
                    rect = 0.0
                    simp = 0.0
                    for n in range(N):
                        ov = S[n + 1, a] ** 2 * S[n + 1, b] ** 2
                        ana += ov * B.Cw(om, lam[n], tau[n], kT)
                        cn = numpy.array(cfs[n].data)
                        # the samples the library holds, integrated by two independent rules:
                        # rectangle sum with Hermitian extension (what an FFT evaluates) and composite Simpson
                        rect += ov * (2.0 * float(numpy.sum(cn * numpy.exp(1j * om * tt)).real) - float(cn[0].real)) * desc["dt"]
                        simp += ov * 2.0 * B.simpson_half_ft(tt, cn, om).real
                    if ana > 1e-6:
                        any_down = True
                    floor = 1e-7 * sc
                    r = abs(RR[a, b] - rect) / (2e-3 * abs(rect) + floor)
                    if r > tight_m:
                        tight_m, dm = r, {"pair": [a, b], "omega_cm": om / U.E_FAC["1/cm"], "matrix": RR[a, b], "direct_sum_of_samples": rect}
                    r = abs(RT[a, b] - simp) / (2e-3 * abs(simp) + floor)
                    if r > tight_t:
                        tight_t, dt_ = r, {"pair": [a, b], "omega_cm": om / U.E_FAC["1/cm"], "tensor": RT[a, b], "simpson_of_samples": simp}
                    r = max(abs(RR[a, b] - ana), abs(RT[a, b] - ana)) / (tol_loose * abs(ana) + floor)
                    if r > loose:
                        loose, dl = r, {"pair": [a, b], "omega_cm": om / U.E_FAC["1/cm"], "matrix": RR[a, b], "tensor": RT[a, b], "analytic": ana,
                                        "rel_dev": max(abs(RR[a, b] - ana), abs(RT[a, b] - ana)) / abs(ana)}
        ctx.check("golden-rule-tight(matrix)", tight_m, 1.0, dict(det, worst=dm))
        ctx.check("golden-rule-tight(tensor)", tight_t, 1.0, dict(det, worst=dt_))
        ctx.check("golden-rule-analytic", loose, 1.0, dict(det, worst=dl, tolerance=tol_loose))
        ctx.note("loose_rel_dev", dl["rel_dev"] if dl else 0.0)
        ctx.note("T", T)
        # time-dependent rate matrix: zero at t=0, conserving at every time, golden rule at its last time index
        if (N <= 3 or case.get("force_td")) and desc["Nt"] <= 1500:
            with ctx.lib("TDRedfieldRateMatrix"):
                from quantarhei.qm import TDRedfieldRateMatrix
                TD = numpy.array(TDRedfieldRateMatrix(ham, agg.get_SystemBathInteraction()).data, dtype=float)
            ok = TD.shape == (desc["Nt"], dim, dim)
            ctx.require("td-rates", ok, dict(det, what="shape", got=list(TD.shape)))
            if ok:
                tsc = max(float(numpy.max(numpy.abs(TD))), 1e-300)
                ctx.check("td-rates", float(numpy.max(numpy.abs(TD[0]))), 64 * EPS * tsc, dict(det, what="K(t=0) == 0"))
                ctx.check("td-rates", float(numpy.max(numpy.abs(TD.sum(axis=1)))), 256 * EPS * tsc * dim, dict(det, what="column sums at every time"))
                ctx.check("td-rates", float(max(numpy.max(numpy.abs(TD[:, 0, :])), numpy.max(numpy.abs(TD[:, :, 0])))), 0.0, dict(det, what="ground state"))
                worst, wd = 0.0, None
                for a in range(1, dim):
                    for b in range(1, dim):
                        if w[b] > w[a] + 1e-9 and (w[b] - w[a]) * desc["dt"] <= 0.16:
                            om = w[b] - w[a]
                            simp = 0.0
                            for n in range(N):
                                simp += S[n + 1, a] ** 2 * S[n + 1, b] ** 2 * 2.0 * B.simpson_half_ft(tt, numpy.array(cfs[n].data), om).real
                            r = abs(TD[-1, a, b] - simp) / (2e-3 * abs(simp) + 1e-7 * sc)
                            if r > worst:
                                worst, wd = r, {"pair": [a, b], "td_last": TD[-1, a, b], "simpson_of_samples": simp}
                ctx.check("td-rates", worst, 1.0, dict(det, what="downhill K(t_last) == golden rule", worst=wd))
        # tensor population elements form a rate matrix too
        ctx.check("tensor-colsum", float(numpy.max(numpy.abs(RT.sum(axis=0)))), 1e-13 * max(sc, Rscale) * dim * dim, det)
        ctx.key(("redfield", N, tuple(desc["E"]), T, desc["Nt"], desc["dt"]))
        ctx.nontrivial(any_down)
        return

    if cls == "foerster":
        with ctx.lib("FoersterRateMatrix"):
            from quantarhei.qm import FoersterRateMatrix
            FR = numpy.array(agg.get_FoersterRateMatrix().data, dtype=float)
            FR2 = numpy.array(FoersterRateMatrix(ham, agg.get_SystemBathInteraction()).data, dtype=float)
        dim = N + 1
        sc = float(numpy.max(numpy.abs(FR))) or 1e-300
        ctx.check("foerster-colsum", float(numpy.max(numpy.abs(FR.sum(axis=0)))), 64 * EPS * sc * dim, det)
        ctx.check("foerster-direct==OpenSystem", float(numpy.max(numpy.abs(FR - FR2))), 1e-12 * sc, det)
        off = FR - numpy.diag(numpy.diag(FR))
        ctx.check("foerster-ground", float(max(numpy.max(numpy.abs(FR[0, :])), numpy.max(numpy.abs(FR[:, 0])))), 0.0, det)
        a0, a1 = strat(FOERSTER_DB, T)
        worst = 0.0
        wd = None
        anyrate = False
        for a in range(1, dim):
            for b in range(a + 1, dim):
                Ea = H[a, a] - lam[a - 1]
                Eb = H[b, b] - lam[b - 1]
                x = -(Ea - Eb) / kT
                if max(FR[a, b], FR[b, a]) > 1e-9:
                    anyrate = True
                # uphill rates below exp(-4) of the downhill one drown in the absolute error of the numerical integral
                if T < FOERSTER_DB_TMIN:
                    ctx.event("foerster_pairs_below_250K_not_judged")
                    continue
                if FR[a, b] > 0 and FR[b, a] > 0 and abs(x) <= 4.0 and max(FR[a, b], FR[b, a]) > 1e-9:
                    dev = abs(math.log(FR[a, b] / FR[b, a]) - x)
                    r = dev / (a0 + a1 * abs(x))
                    if r > worst:
                        worst, wd = r, {"pair": [a, b], "log_ratio": math.log(FR[a, b] / FR[b, a]), "expected": x, "dev": dev, "tolerance": a0 + a1 * abs(x)}
        if T >= FOERSTER_DB_TMIN:
            ctx.check("foerster-detailed-balance", worst, 1.0, dict(det, worst=wd))
        ctx.note("foerster_dev", wd)
        ctx.note("T", T)
        ctx.key(("foerster", N, tuple(desc["E"]), T, desc["Nt"], desc["dt"]))
        ctx.nontrivial(anyrate)
