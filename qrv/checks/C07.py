"""C07  Operator form, tensor form and exact limits of a tensor agree.

Differential observation of two real objects built from the same inputs (one
held as operator components, one as a four-index tensor): apply() on random
operators and all matrix units in three bases, propagated trajectories, and the
state after convert_2_tensor().  End points of the time-dependent Redfield
tensor.  Exactly solvable limit (uncoupled sites) against the analytic
pure-dephasing solution built from an independent line-shape function.
"""
import io
import math
import contextlib
import numpy
from qrv import build, tensors
from qrv.build import r3
from qrv.oracles import bath as B
from qrv.oracles import units as U

LEVEL = "exploration"
RULE = ("systems and baths as in C01 restricted to Redfield (standard, time dependent) and Lindblad forms; each case builds the operator-form and the tensor-form "
        "object from the same inputs and applies both to 3 random Hermitian, 3 random non-Hermitian operators and all N^2 matrix units outside any context, inside "
        "eigenbasis_of(H) and inside the eigenbasis of a random operator, before and after convert_2_tensor(); propagations of random states in both forms, also with a propagator object made before the conversion and used after it (outside and inside two contexts); "
        "TD tensor end points; uncoupled aggregates of 1-4 sites with distinct baths for the exact limit. distinct = (class, N, rounded parameters); non-trivial iff "
        "the tensor has elements outside the secular pattern (so the two forms exercise different code) resp. Re g(Tmax) > 1 for the exact limit.")
RULE = RULE + " Round-6 workloads: one third of the TD end-point cases uses classical real-valued (value-defined) bath correlation functions."
RULE = RULE + " Round-7 workloads: TD propagations in both forms are also compared after convert_from_RWA, and their is_in_rwa flags must agree."
ASSUMPTIONS = ["'equals' for TD[-1] vs the time-independent tensor is judged at 1e-9 relative (both are integrals of the same samples)",
               "exact limit: tolerance on the ratio rho(t) / (rho(0) exp(-i w t - g(t))) is exp(1.5 dt max|h| + Taylor) - 1 plus 2e-3 (first-order sampling of the "
               "tensor on the bath grid); compared where |exp(-g)| > 1e-6; no logarithms are compared"]
MIN_NONTRIVIAL = {"quick": 40, "thorough": 300}
REQUIRED_CLAUSES = ["apply:operators==tensor", "propagate:operators==tensor", "TD[0]==0", "TD[-1]==time-independent", "exact-pure-dephasing-limit", "converted==tensor"]
TIMEOUT = {"quick": 900, "thorough": 3400}
EPS = numpy.finfo(float).eps


def gen_cases(tier, rng):
    cases = []
    n = 12 if tier == "quick" else 80
    for kind in ("stR", "Lindblad", "direct-Redfield"):
        for i in range(n):
            lab = {"stR": "stR", "Lindblad": "Lindblad-tensor", "direct-Redfield": "direct-Redfield"}[kind]
            c = tensors.gen_case(rng, lab, tier)
            c["cls"] = "forms:" + kind
            c["method"] = str(rng.choice(["short-exp-2", "short-exp-4", "short-exp-6"]))
            c["nref"] = int(rng.choice([1, 2, 3]))
            c["cost"] = 4
            cases.append(c)
    m = 8 if tier == "quick" else 50
    for i in range(m):
        c = tensors.gen_case(rng, "stR-TD", tier)
        c["cls"] = "td-endpoints"
        if len(cases) % 3 == 2:
            # classical, real-valued bath correlation functions given by their values
            for b_ in c["sys"]["bath"]:
                b_["ftype"] = "Value-defined-real"
        c["cost"] = 6 + c["sys"]["Nt"] / 20.0
        cases.append(c)
    # time-dependent Redfield tensor held as operators vs as a tensor: conversion, then use in other bases than the one of conversion
    for i in range(6 if tier == "quick" else 40):
        c = tensors.gen_case(rng, "stR-TD", tier, nmax=3)
        c["sys"]["N"] = max(c["sys"]["N"], 2 + i % 2)
        if len(c["sys"]["E"]) < c["sys"]["N"]:
            c = tensors.gen_case(rng, "stR-TD", "thorough", nmax=3)
        c["cls"] = "td-forms"
        c["where"] = ["outside", "inside-protected", "outside"][i % 3]
        c["cost"] = 8 + c["sys"]["Nt"] / 10.0
        cases.append(c)
    k = 12 if tier == "quick" else 70
    for i in range(k):
        N = int(rng.integers(1, 5 if tier == "thorough" else 4))
        T = r3(rng.choice([77.0, 150.0, 300.0]) if rng.random() < 0.6 else rng.uniform(77, 350))
        dt = float(rng.choice([0.5, 1.0, 1.0, 2.0]))
        s = build.gen_system(rng, N=N, T=T, dt=dt, zero_coupling=True, shared_bath=False, dipoles=False, lam=(20.0, 150.0), tau=(30.0, 120.0), spread=400.0)
        s["Nt"] = int(rng.integers(200, 500) / dt) if tier == "quick" else int(rng.integers(200, 800) / dt)
        cases.append({"cls": "exact-limit", "sys": s, "seed": int(rng.integers(1 << 30)), "cost": 3 + N ** 4 * s["Nt"] / 3000.0})
    return cases


def rand_ops(rng, dim):
    out = []
    for k in range(3):
        A = rng.normal(size=(dim, dim)) + 1j * rng.normal(size=(dim, dim))
        out.append(("hermitian", (A + A.conj().T) / 2))
        out.append(("general", A))
    return out


def apply_np(R, X, carrier="Operator"):
    """R.apply() on the matrix X held by an object of the given class (density-matrix classes are filled after construction,
    as in the package's own tests: rho = ReducedDensityMatrix(dim=N); rho.data[1,2] = 1.0)"""
    import quantarhei as qr
    with contextlib.redirect_stdout(io.StringIO()):
        Xc = numpy.array(X, dtype=complex)
        if carrier == "Operator":
            op = qr.qm.Operator(data=Xc)
        else:
            op = (qr.ReducedDensityMatrix if carrier == "ReducedDensityMatrix" else qr.DensityMatrix)(dim=Xc.shape[0])
            op.data = Xc
        return numpy.array(R.apply(op).data)


def run_case(case, ctx):
    import quantarhei as qr
    from quantarhei import qm
    cls = case["cls"]
    rng = numpy.random.default_rng(case["seed"])

    if cls.startswith("forms:"):
        kind = cls.split(":")[1]
        lab_t = case["label"]
        lab_o = {"stR": "stR-ops", "Lindblad-tensor": "Lindblad-ops", "direct-Redfield": "direct-Redfield-ops"}[lab_t]
        with ctx.lib("construction of both forms", mechanism=None):
            Bt = tensors.build_case(case)
            Bo = tensors.build_case(dict(case, label=lab_o))
        Rt, Ro = Bt["R"], Bo["R"]
        ham = Bt["hamR"]
        dim = ham.dim
        ctx.require("forms", (not getattr(Rt, "as_operators", False)) and bool(getattr(Ro, "as_operators", False)), {"what": "unexpected representation"})
        sao = qm.SelfAdjointOperator(data=tensors.random_sao(rng, dim))
        det = {"kind": kind, "N": case["sys"]["N"]}
        Tt = numpy.array(Rt.data)
        sc = max(float(numpy.max(numpy.abs(Tt))), 1e-300)
        ops = rand_ops(rng, dim)
        for name, cm in (("outside", contextlib.nullcontext), ("eigenbasis_of(H)", lambda: qr.eigenbasis_of(ham)), ("eigenbasis_of(random)", lambda: qr.eigenbasis_of(sao))):
            worst = 0.0
            wk = None
            with ctx.lib("apply() in both forms " + name, mechanism=None):
                with cm():
                    for (okind, X) in ops:
                        for carrier in ("Operator", "ReducedDensityMatrix", "DensityMatrix"):
                            a = apply_np(Ro, X, carrier)
                            b = apply_np(Rt, X, carrier)
                            r = float(numpy.max(numpy.abs(a - b))) / (float(numpy.max(numpy.abs(X))) + 1e-300)
                            if r > worst:
                                worst, wk = r, okind + " held by " + carrier
                            if carrier != "Operator":
                                # the action does not depend on the class that carries the matrix
                                r2 = float(numpy.max(numpy.abs(a - a_op))) / (float(numpy.max(numpy.abs(X))) + 1e-300)
                                if r2 > worst:
                                    worst, wk = r2, okind + ": " + carrier + " vs Operator (operator form)"
                            else:
                                a_op = a
                    To = tensors.tensor_by_apply(Ro, dim)
                    Tb = tensors.tensor_by_apply(Rt, dim)
            ctx.check("apply:operators==tensor", worst, 1e-12 * sc * dim * dim, dict(det, basis=name, operator=wk))
            ctx.check("apply:operators==tensor", float(numpy.max(numpy.abs(To - Tb))), 1e-12 * sc * dim * dim, dict(det, basis=name, operator="matrix units"))
        # propagation in both forms
        Hd = numpy.array(ham.data, dtype=float)
        if ham.has_rwa:
            Hd = Hd - numpy.diag(numpy.array(ham.rwa_energies, dtype=float))
        nL = float(numpy.linalg.norm(Hd, 2)) * 2 + sc * dim
        dt = 0.2 * case["nref"] / nL
        tp = qr.TimeAxis(0.0, 25, float("%.4g" % dt))
        rho0 = numpy.zeros((dim, dim), dtype=complex)
        rho0[1:, 1:] = build.random_state(rng, dim - 1)
        with ctx.lib("propagation in both forms", mechanism=None):
            with contextlib.redirect_stdout(io.StringIO()):
                P_o = qm.ReducedDensityMatrixPropagator(tp, ham, Ro)
                e_o = P_o.propagate(qr.ReducedDensityMatrix(data=rho0.copy()), method=case["method"], Nref=case["nref"])
                e_t = qm.ReducedDensityMatrixPropagator(tp, ham, Rt).propagate(qr.ReducedDensityMatrix(data=rho0.copy()), method=case["method"], Nref=case["nref"])
                d_o, d_t = numpy.array(e_o.data), numpy.array(e_t.data)
                with qr.eigenbasis_of(ham):
                    e_o2 = qm.ReducedDensityMatrixPropagator(tp, ham, Ro).propagate(qr.ReducedDensityMatrix(data=rho0.copy()), method=case["method"], Nref=case["nref"])
                d_o2 = numpy.array(e_o2.data)
        ctx.check("propagate:operators==tensor", float(numpy.max(numpy.abs(d_o - d_t))), 1e-11, dict(det, method=case["method"], Nref=case["nref"]))
        moved = float(numpy.max(numpy.abs(d_t - rho0[None])))
        # conversion
        with ctx.lib("convert_2_tensor", mechanism=None):
            with contextlib.redirect_stdout(io.StringIO()):
                Ro.convert_2_tensor()
                Tc = numpy.array(Ro.data)
                Tc_apply = tensors.tensor_by_apply(Ro, dim)
                Ro.convert_2_tensor()           # converting again must change nothing
                Tc2 = numpy.array(Ro.data)
                with qr.eigenbasis_of(ham):
                    Tc_e = numpy.array(Ro.data)
                    Tt_e = numpy.array(Rt.data)
        # the propagator object made while the tensor was held as operators, used again after the conversion, outside and inside contexts
        with ctx.lib("propagator made before the conversion, used after it", mechanism=None):
            with contextlib.redirect_stdout(io.StringIO()):
                d_after = {}
                d_after["outside"] = numpy.array(P_o.propagate(qr.ReducedDensityMatrix(data=rho0.copy()), method=case["method"], Nref=case["nref"]).data)
                r_x, r_y = qr.ReducedDensityMatrix(data=rho0.copy()), qr.ReducedDensityMatrix(data=rho0.copy())
                with qr.eigenbasis_of(ham):
                    e_x = P_o.propagate(r_x, method=case["method"], Nref=case["nref"])
                d_after["eigenbasis_of(H)"] = numpy.array(e_x.data)
                with qr.eigenbasis_of(sao):
                    e_y = P_o.propagate(r_y, method=case["method"], Nref=case["nref"])
                d_after["eigenbasis_of(random)"] = numpy.array(e_y.data)
        for nm_, dd_ in d_after.items():
            ctx.check("propagate:operators==tensor", float(numpy.max(numpy.abs(dd_ - d_t))), 1e-10, dict(det, method=case["method"], Nref=case["nref"],
                                                                                                         what="propagator made before convert_2_tensor, used after it " + nm_))
        ctx.check("converted==tensor", float(numpy.max(numpy.abs(Tc - Tt))), 1e-12 * sc * dim * dim, det)
        ctx.check("converted==tensor", float(numpy.max(numpy.abs(Tc_apply - Tt))), 1e-12 * sc * dim * dim, dict(det, what="apply() after conversion"))
        ctx.check("converted==tensor", float(numpy.max(numpy.abs(Tc2 - Tc))), 0.0, dict(det, what="second conversion"))
        ctx.check("converted==tensor", float(numpy.max(numpy.abs(Tc_e - Tt_e))), 1e-12 * sc * dim * dim, dict(det, what="inside eigenbasis_of(H)"))
        pat = numpy.zeros((dim,) * 4, dtype=bool)
        for a in range(dim):
            for b in range(dim):
                pat[a, a, b, b] = True
                pat[a, b, a, b] = True
        with qr.eigenbasis_of(ham):
            Te = numpy.array(Rt.data)
        nonsec = float(numpy.max(numpy.abs(Te[~pat])))
        ctx.key((cls, case["sys"]["N"], tuple(case["sys"]["E"]), case["method"], case["nref"]))
        ctx.nontrivial(nonsec > 1e-6 * sc and moved > 1e-4)
        return

    if cls == "td-forms":
        with ctx.lib("TD Redfield tensor in both forms", mechanism=None):
            with contextlib.redirect_stdout(io.StringIO()):
                Bt = tensors.build_case(case)
                Bo = tensors.build_case(dict(case, label="stR-TD-ops"))
        Rt, Ro, ham, t = Bt["R"], Bo["R"], Bt["hamR"], Bt["t"]
        dim = ham.dim
        det = {"kind": "stR-TD", "N": case["sys"]["N"], "converted": case["where"]}
        ctx.require("forms", (not getattr(Rt, "as_operators", False)) and bool(getattr(Ro, "as_operators", False)), {"what": "unexpected representation"})
        Tt = numpy.array(Rt.data)
        sc = max(float(numpy.max(numpy.abs(Tt))), 1e-300)
        rho0 = numpy.zeros((dim, dim), dtype=complex)
        rho0[1:, 1:] = build.random_state(rng, dim - 1, kind="mixed")
        # dynamics generated by the two forms, before any conversion, for Hermitian states and for general operators (coherences,
        # matrix units - what an evolution superoperator propagates): the generator is complex linear in both forms
        with ctx.lib("TD propagation in operator form vs tensor form", mechanism=None):
            with contextlib.redirect_stdout(io.StringIO()):
                starts = [("hermitian state", rho0.copy())]
                nh = numpy.zeros((dim, dim), dtype=complex)
                nh[1, 0] = 1.0
                starts.append(("coherence |e><g|", nh))
                if dim > 2:
                    mu = numpy.zeros((dim, dim), dtype=complex)
                    mu[1, 2] = 1.0
                    starts.append(("matrix unit |1><2|", mu))
                gen_ = rng.normal(size=(dim, dim)) + 1j * rng.normal(size=(dim, dim))
                starts.append(("general complex operator", gen_ / numpy.linalg.norm(gen_)))
                pairs = []
                lab_pairs, labs_, flags_ = [], [], []
                for nm_, x0 in starts:
                    ops_ = []
                    for R_, h_ in ((Ro, Bo["hamR"]), (Rt, ham)):
                        r_ = qr.ReducedDensityMatrix(dim=dim)
                        r_.data = x0.copy()
                        ev_ = qm.ReducedDensityMatrixPropagator(t, h_, R_).propagate(r_)
                        ops_.append(numpy.array(ev_.data))
                        # the same dynamics as the laboratory frame sees it: the evolution says which frame it is in and converts itself
                        flags_.append(bool(getattr(ev_, "is_in_rwa", False)))
                        if h_.has_rwa:
                            ev_.convert_from_RWA(h_)
                        labs_.append(numpy.array(ev_.data))
                    pairs.append((nm_, ops_[0], ops_[1]))
                    lab_pairs.append((nm_, labs_[-2], labs_[-1], flags_[-2], flags_[-1]))
        for nm_, a_, b_ in pairs:
            ctx.check("propagate:operators==tensor", float(numpy.max(numpy.abs(a_ - b_))), 1e-10, dict(det, what="TD tensor, operator form vs tensor form", initial=nm_))
        for nm_, a_, b_, fa_, fb_ in lab_pairs:
            ctx.require("propagate:operators==tensor", fa_ == fb_, dict(det, what="TD tensor: the two forms report different frames (is_in_rwa)", initial=nm_, operator_form=fa_, tensor_form=fb_))
            ctx.check("propagate:operators==tensor", float(numpy.max(numpy.abs(a_ - b_))), 1e-10, dict(det, what="TD tensor, operator form vs tensor form, converted to the laboratory frame", initial=nm_))
        with ctx.lib("convert_2_tensor of the TD operator form, then other bases", mechanism=None):
            with contextlib.redirect_stdout(io.StringIO()):
                hamo = Bo["hamR"]
                if case["where"] == "outside":
                    Ro.convert_2_tensor()
                else:
                    # converted inside the eigenbasis context of the (protected) Hamiltonian, as the aggregate's builders work
                    hamo.protect_basis()
                    with qr.eigenbasis_of(hamo):
                        Ro.convert_2_tensor()
                    hamo.unprotect_basis()
                Tc = numpy.array(Ro.data)
                with qr.eigenbasis_of(ham):
                    Tt_e = numpy.array(Rt.data)
                with qr.eigenbasis_of(hamo):
                    Tc_e = numpy.array(Ro.data)
                Tc_back = numpy.array(Ro.data)
                sao = qm.SelfAdjointOperator(data=tensors.random_sao(rng, dim))
                with qr.eigenbasis_of(sao):
                    Tc_r = numpy.array(Ro.data)
                    Tt_r = numpy.array(Rt.data)
                e_c = qm.ReducedDensityMatrixPropagator(t, hamo, Ro).propagate(qr.ReducedDensityMatrix(data=rho0.copy()))
                e_t = qm.ReducedDensityMatrixPropagator(t, ham, Rt).propagate(qr.ReducedDensityMatrix(data=rho0.copy()))
                with qr.eigenbasis_of(hamo):
                    e_c2 = qm.ReducedDensityMatrixPropagator(t, hamo, Ro).propagate(qr.ReducedDensityMatrix(data=(numpy.array(qr.ReducedDensityMatrix(data=rho0.copy()).data))))
                d_c, d_t = numpy.array(e_c.data), numpy.array(e_t.data)
        tol = 1e-11 * sc * dim * dim
        ok = Tc.shape == Tt.shape
        ctx.require("converted==tensor", ok, dict(det, what="shape", got=list(Tc.shape), want=list(Tt.shape)))
        if ok:
            ctx.check("converted==tensor", float(numpy.max(numpy.abs(Tc - Tt))), tol, dict(det, what="site basis, all times"))
            ctx.check("converted==tensor", float(numpy.max(numpy.abs(Tc_e - Tt_e))), tol, dict(det, what="read inside eigenbasis_of(H) after conversion"))
            ctx.check("converted==tensor", float(numpy.max(numpy.abs(Tc_back - Tt))), tol, dict(det, what="after leaving the context again"))
            ctx.check("converted==tensor", float(numpy.max(numpy.abs(Tc_r - Tt_r))), tol, dict(det, what="read inside eigenbasis_of(random operator)"))
            ctx.check("propagate:operators==tensor", float(numpy.max(numpy.abs(d_c - d_t))), 1e-10, dict(det, what="dynamics with the converted tensor vs the tensor-form one"))
        ctx.key((cls, case["sys"]["N"], tuple(case["sys"]["E"]), case["where"]))
        ctx.nontrivial(case["sys"]["N"] >= 2 and float(numpy.max(numpy.abs(Tt[-1]))) > 0)
        return

    if cls == "td-endpoints":
        with ctx.lib("TD and time-independent Redfield tensors", mechanism=None):
            Bt = tensors.build_case(case)
            Bi = tensors.build_case(dict(case, label="stR"))
            TD = numpy.array(Bt["R"].data)
            TI = numpy.array(Bi["R"].data)
            with qr.eigenbasis_of(Bt["hamR"]):
                TDe = numpy.array(Bt["R"].data)
            with qr.eigenbasis_of(Bi["hamR"]):
                TIe = numpy.array(Bi["R"].data)
        sc = max(float(numpy.max(numpy.abs(TI))), 1e-300)
        det = {"N": case["sys"]["N"], "Nt": case["sys"]["Nt"], "scale": sc, "bath": case["sys"]["bath"][0]["ftype"]}
        ctx.require("TD[0]==0", TD.ndim == 5 and TD.shape[0] == case["sys"]["Nt"], dict(det, shape=list(TD.shape)))
        ctx.check("TD[0]==0", float(numpy.max(numpy.abs(TD[0]))), 64 * EPS * sc, det)
        ctx.check("TD[-1]==time-independent", float(numpy.max(numpy.abs(TD[-1] - TI))), 1e-9 * sc, det)
        ctx.check("TD[-1]==time-independent", float(numpy.max(numpy.abs(TDe[-1] - TIe))), 1e-9 * sc, dict(det, basis="eigenbasis_of(H)"))
        # the tensor builds up monotonically in norm towards its limit only loosely; what is exact: TD differs from 0 somewhere
        ctx.key((cls, case["sys"]["N"], tuple(case["sys"]["E"]), case["sys"]["Nt"]))
        ctx.nontrivial(sc > 0 and float(numpy.max(numpy.abs(TD[1]))) > 0)
        return

    if cls == "exact-limit":
        desc = case["sys"]
        N = desc["N"]
        with ctx.lib("uncoupled aggregate, TD Redfield propagation", mechanism=None):
            agg, t, cfs = build.make_aggregate(desc)
            RT, ham = agg.get_RelaxationTensor(t, relaxation_theory="stR", time_dependent=True)
            dim = ham.dim
            rho0 = numpy.full((dim, dim), 1.0 / dim, dtype=complex)
            with contextlib.redirect_stdout(io.StringIO()):
                ev = qm.ReducedDensityMatrixPropagator(t, ham, RT).propagate(qr.ReducedDensityMatrix(data=rho0.copy()))
            data = numpy.array(ev.data)
            Hd = numpy.array(ham.data, dtype=float)
            om = numpy.diag(Hd) - numpy.array(ham.rwa_energies, dtype=float)
        tt = numpy.array(t.data)
        kT = U.KB_INT_PER_K * desc["T"]
        g = [numpy.zeros(len(tt), dtype=complex)]
        h = [numpy.zeros(len(tt), dtype=complex)]
        for n in range(N):
            b = desc["bath"][n]
            lam = b["reorg"] * U.E_FAC["1/cm"]
            g.append(B.g_of_t(tt, lam, b["cortime"], kT, b["ftype"]))
            h.append(B.h_of_t(tt, lam, b["cortime"], kT, b["ftype"]))
        # cross-check of the oracle's g(t) against the library's own sampled C(t): double cumulative trapezoid
        for n in range(N):
            c = numpy.array(cfs[n].data)
            h_num = numpy.concatenate([[0], numpy.cumsum((c[1:] + c[:-1]) / 2) * desc["dt"]])
            g_num = numpy.concatenate([[0], numpy.cumsum((h_num[1:] + h_num[:-1]) / 2) * desc["dt"]])
            ctx.check("oracle-g(t)-consistent-with-sampled-C(t)", float(numpy.max(numpy.abs(g_num - g[n + 1]))),
                      2e-2 * max(1.0, float(numpy.max(numpy.abs(g[n + 1])))), {"site": n, "what": "analytic g(t) vs trapezoid of the library's C(t)"})
        worst = 0.0
        wd = None
        maxg = 0.0
        x = float(numpy.max(numpy.abs(om))) * desc["dt"]
        taylor = x ** 5 / 120.0 * math.exp(x) * len(tt)
        for a in range(dim):
            for b_ in range(dim):
                if a == b_:
                    continue
                ex = g[a] + numpy.conj(g[b_])
                ana = rho0[a, b_] * numpy.exp(-1j * (om[a] - om[b_]) * tt - ex)
                sel = numpy.abs(numpy.exp(-ex)) > 1e-6
                hm = float(numpy.max(numpy.abs(h[a]) + numpy.abs(h[b_])))
                tol = math.exp(1.5 * desc["dt"] * hm + taylor) - 1.0 + 2e-3
                ratio = numpy.abs(data[sel, a, b_] / ana[sel] - 1.0)
                r = float(numpy.max(ratio)) / tol
                if r > worst:
                    worst, wd = r, {"coherence": [a, b_], "max_ratio_dev": float(numpy.max(ratio)), "tolerance": tol, "dt_max_h": desc["dt"] * hm}
                maxg = max(maxg, float(numpy.max(ex.real)))
        ctx.check("exact-pure-dephasing-limit", worst, 1.0, dict(N=N, T=desc["T"], dt=desc["dt"], worst=wd))
        pops = numpy.abs(numpy.einsum("tii->ti", data) - 1.0 / dim)
        ctx.check("exact-limit:populations-static", float(numpy.max(pops)), 1e-9, {"N": N})
        ctx.note("max_Re_g", maxg)
        ctx.key((cls, N, tuple(desc["E"]), desc["T"], desc["dt"], desc["Nt"]))
        ctx.nontrivial(maxg > 1.0)
