"""C13  Fourier transforms and time/frequency axes are mutually inverse.

The real TimeAxis/FrequencyAxis/DFunction methods are run over all lengths of
a small range (both parities, both axis types, several starts/steps, several
data kinds) and a random sample of longer axes; every returned axis and every
returned value is compared with direct O(N^2) Fourier sums.
"""
import numpy
from qrv.oracles import fourier
from qrv.build import r3

LEVEL = "exploration"
RULE = ("one case per axis length N: all N in 2..64 (thorough 2..160) plus random N up to 1024 (thorough 4096); "
        "inside a case: axis type {complete, upper-half} x start {0 or centred, arbitrary, a few steps on a scale 1e-12..1e8 of the variable} x random step x direction "
        "{time-first, frequency-first} for the axis clauses and data kind {complex random, real, hermitian, delta, windowed} "
        "for the transform clauses. distinct = (clause family, N, axis type, start class, data kind); non-trivial iff N >= 3 "
        "and the data have at least two non-zero samples (delta: position not at index 0).")
RULE = RULE + " Round-6 workloads: after the first transforms the values of the function and of its spectrum are changed in place and the transforms repeated."
ASSUMPTIONS = ["transform clauses use complete axes centred at zero (t_n = (n - N//2) dt) and upper-half axes starting at 0, as the statement says",
               "upper-half data have a real first sample (Hermitian-extendable)"]
MIN_NONTRIVIAL = {"quick": 400, "thorough": 1200}
REQUIRED_CLAUSES = ["axis-roundtrip", "ft==direct-sum", "ft-roundtrip"]
EPS = numpy.finfo(float).eps


def gen_cases(tier, rng):
    nmax = 64 if tier == "quick" else 160
    cases = []
    for N in range(2, nmax + 1):
        cases.append({"cls": "small-N", "N": N, "seed": int(rng.integers(1 << 30)), "cost": N})
    big = [int(x) for x in rng.integers(65, 1025 if tier == "quick" else 4097, size=(8 if tier == "quick" else 40))]
    # both parities for sure
    big += [255, 256] if tier == "quick" else [1023, 1024, 2047, 2048]
    for N in big:
        cases.append({"cls": "large-N", "N": N, "seed": int(rng.integers(1 << 30)), "cost": N * N / 300.0})
    return cases


def axes_equal(ctx, clause, a, b, detail):
    """a, b: axis objects; compare start/step/length/data"""
    ok_len = (a.length == b.length)
    ctx.require(clause, ok_len, dict(detail, what="length", a=a.length, b=b.length))
    if not ok_len:
        return
    scale = max(float(numpy.max(numpy.abs(a.data))), abs(a.step) * a.length)
    # start + k*step with a step that is a difference of numbers of the
    # size of the axis extent: relative rounding grows like eps*length
    tol = (1e-12 + 4 * EPS * a.length) * scale
    ctx.check(clause, abs(a.start - b.start), tol, dict(detail, what="start", a=a.start, b=b.start))
    ctx.check(clause, abs(a.step - b.step), (1e-12 + 4 * EPS * a.length) * abs(a.step), dict(detail, what="step", a=a.step, b=b.step))
    ctx.check(clause, float(numpy.max(numpy.abs(numpy.asarray(a.data) - numpy.asarray(b.data)))), tol,
              dict(detail, what="data"))
    ctx.require(clause, a.atype == b.atype, dict(detail, what="atype"))


def ft_bound(nterms, y, dt):
    """rounding bound of comparing an FFT with a direct sum evaluated at the
    *returned* axis points: the axis step is a difference of numbers of size
    pi/dt (relative error ~ eps*nterms/2), so phases w_k t_n carry an absolute
    error up to ~ eps*nterms^2*pi/2; plus the usual summation error"""
    y = numpy.asarray(y)
    return (4.0 * EPS * nterms ** 2 * float(numpy.sum(numpy.abs(y))) * dt
            + 64 * EPS * nterms * float(numpy.max(numpy.abs(y))) * dt + 1e-300)


def data_kinds(rng, N, atype):
    out = {}
    y = rng.normal(size=N) + 1j * rng.normal(size=N)
    if atype == "upper-half":
        y[0] = y[0].real
    out["complex"] = y
    out["real"] = rng.normal(size=N).astype(complex)
    out["real-float-storage"] = rng.normal(size=N)          # values handed over as a float array (e.g. a measured real signal)
    if atype == "complete":
        # f(-t) = conj f(t) about index N//2 where possible
        h = rng.normal(size=N) + 1j * rng.normal(size=N)
        c = N // 2
        h[c] = h[c].real
        for k in range(1, N):
            if c - k >= 0 and c + k < N:
                h[c - k] = numpy.conj(h[c + k])
        out["hermitian"] = h
    d = numpy.zeros(N, dtype=complex)
    pos = int(rng.integers(1, N)) if N > 1 else 0
    d[pos] = 1.0 + 0.5j if not (atype == "upper-half" and pos == 0) else 1.0
    out["delta"] = d
    return out


def run_case(case, ctx):
    import quantarhei as qr
    N = case["N"]
    rng = numpy.random.default_rng(case["seed"])
    ctx.key(("N", N))
    ctx.nontrivial(N >= 3)

    # ------------------------------------------------------------------ axes
    for atype in ("complete", "upper-half"):
        for sc in ("natural", "arbitrary", "scaled"):
            dt = r3(rng.uniform(0.05, 10.0))
            # "scaled": the same on another scale of the variable (steps from 1e-12 to 1e8): nothing in the statement is tied to femtoseconds
            q = float(10.0 ** int(rng.integers(-12, 9))) if sc == "scaled" else 1.0
            dt = float("%.3g" % (dt * q))
            if sc == "natural":
                start = -(N // 2) * dt if atype == "complete" else 0.0
            elif sc == "scaled":
                start = float("%.3g" % (rng.uniform(-4.0, 4.0) * dt))
            else:
                start = r3(rng.uniform(-50.0, 50.0))
            det = {"N": N, "atype": atype, "start": start, "step": dt, "direction": "time-first"}
            with ctx.lib("TimeAxis -> FrequencyAxis -> TimeAxis"):
                t = qr.TimeAxis(start, N, dt, atype=atype)
                t_asmade = qr.TimeAxis(start, N, dt, atype=atype)        # the axis as specified (the mappings must not move the caller's axis)
                w = t.get_FrequencyAxis()
                t2 = w.get_TimeAxis()
                w2 = t2.get_FrequencyAxis()
            axes_equal(ctx, "axis-roundtrip", t_asmade, t, dict(det, what2="the axis object after its frequency axis was derived vs as specified"))
            ctx.check("axis-roundtrip", abs(float(t.start) - float(start)), 0.0, dict(det, what="start of the caller's axis after get_FrequencyAxis()", got=float(t.start)))
            axes_equal(ctx, "axis-roundtrip", t_asmade, t2, det)
            axes_equal(ctx, "axis-roundtrip", w, w2, dict(det, direction="w->t->w (derived)"))
            # derived frequency axis is the reciprocal grid
            L = N if atype == "complete" else 2 * N
            ctx.require("axis-reciprocal", w.length == L, dict(det, what="length", got=w.length))
            ctx.check("axis-reciprocal", abs(w.step - 2 * numpy.pi / (L * dt)), (1e-12 + 4 * EPS * L) * abs(w.step), dict(det, what="step"))
            wref = 2 * numpy.pi * (numpy.arange(L) - L // 2) / (L * dt)
            ctx.check("axis-reciprocal", float(numpy.max(numpy.abs(numpy.asarray(w.data) - wref))),
                      (1e-12 + 4 * EPS * L) * numpy.pi / dt, dict(det, what="data"))
            ctx.sub(("axis", "t-first", N, atype, sc), nontrivial=N >= 3)

            # frequency-first
            if atype == "upper-half" and N % 2 == 1:
                continue
            dw = float("%.3g" % (rng.uniform(0.001, 1.0) / q))
            if sc == "natural":
                wstart = -(N // 2) * dw
            elif sc == "scaled":
                wstart = float("%.3g" % (rng.uniform(-4.0, 4.0) * dw))
            else:
                wstart = r3(rng.uniform(-5.0, 5.0))
            det = {"N": N, "atype": atype, "start": wstart, "step": dw, "direction": "frequency-first"}
            with ctx.lib("FrequencyAxis -> TimeAxis -> FrequencyAxis"):
                w = qr.FrequencyAxis(wstart, N, dw, atype=atype)
                w_asmade = qr.FrequencyAxis(wstart, N, dw, atype=atype)
                t = w.get_TimeAxis()
                w2 = t.get_FrequencyAxis()
                t2 = w2.get_TimeAxis()
            axes_equal(ctx, "axis-roundtrip", w_asmade, w, dict(det, what2="the axis object after its time axis was derived vs as specified"))
            axes_equal(ctx, "axis-roundtrip", w_asmade, w2, det)
            axes_equal(ctx, "axis-roundtrip", t, t2, dict(det, direction="t->w->t (derived)"))
            ctx.sub(("axis", "w-first", N, atype, sc), nontrivial=N >= 3)
            # the same mappings made while an energy-units context is active (frequency axes are units managed): the axes obtained are
            # the same physical axes (compared outside the context)
            from qrv.oracles import units as UU
            unit = ["1/cm", "eV", "THz", "meV"][(N + (0 if atype == "complete" else 1) + (0 if sc == "natural" else 2)) % 4]
            fac = UU.E_FAC[unit]
            with ctx.lib("axis mappings inside energy_units(%s)" % unit):
                with qr.energy_units(unit):
                    wu = qr.FrequencyAxis(wstart / fac, N, dw / fac, atype=atype)
                    tu = wu.get_TimeAxis()
                    wu2 = tu.get_FrequencyAxis()
                    tu2 = wu2.get_TimeAxis()
            detu = dict(det, units_context=unit)
            axes_equal(ctx, "axis-roundtrip", w, wu, dict(detu, what2="axis defined in the context vs defined in internal units"))
            axes_equal(ctx, "axis-roundtrip", t, tu, dict(detu, direction="get_TimeAxis inside the context vs outside"))
            axes_equal(ctx, "axis-roundtrip", wu, wu2, dict(detu, direction="w->t->w inside the context"))
            axes_equal(ctx, "axis-roundtrip", tu, tu2, dict(detu, direction="t->w->t inside the context"))
            ctx.sub(("axis", "w-first-in-context", N, atype, sc, unit), nontrivial=N >= 3)

    # ------------------------------------------------------------ transforms
    if case["cls"] == "large-N":
        kinds_sel = ("complex",)
    else:
        kinds_sel = ("complex", "real", "real-float-storage", "hermitian", "delta")
    for atype in ("complete", "upper-half"):
        dt = r3(rng.uniform(0.05, 10.0))
        start = -(N // 2) * dt if atype == "complete" else 0.0
        kinds = data_kinds(rng, N, atype)
        for kind in kinds_sel:
            if kind not in kinds:
                continue
            y = kinds[kind]
            det = {"N": N, "atype": atype, "step": dt, "data": kind}
            # how the values got into the function object does not matter: constructor, assignment to .data, or apply_to_data
            route = ["constructor", "data-assignment", "apply_to_data"][(N + len(kind) + (0 if atype == "complete" else 1)) % 3]
            det["values_set_by"] = route
            with ctx.lib("DFunction.get_Fourier_transform"):
                t = qr.TimeAxis(start, N, dt, atype=atype)
                if route == "constructor":
                    f = qr.DFunction(t, y.copy())
                elif route == "data-assignment":
                    f = qr.DFunction(t, numpy.ones(N))
                    f.data = y.copy()
                else:
                    f = qr.DFunction(t, numpy.ones(N))
                    yy = y.copy()
                    f.apply_to_data(lambda d_: d_ * yy)
                F = f.get_Fourier_transform()
                wdata = numpy.array(F.axis.data, dtype=float)
                Fd = numpy.array(F.data)
            if atype == "complete":
                ref = fourier.direct_ft(t.data, y, wdata, dt)
                nterms = N
            else:
                tt, yy = fourier.hermitian_extension(t.data, y)
                ref = fourier.direct_ft(tt, yy, wdata, dt)
                nterms = 2 * N
            ymax = float(numpy.max(numpy.abs(y)))
            bound = ft_bound(nterms, y, dt)
            ok_shape = Fd.shape == ref.shape
            ctx.require("ft==direct-sum", ok_shape, dict(det, what="shape", got=list(Fd.shape), want=list(ref.shape)))
            if ok_shape:
                ctx.check("ft==direct-sum", float(numpy.max(numpy.abs(Fd - ref))), bound,
                          dict(det, scale=float(numpy.max(numpy.abs(ref)))))
            with ctx.lib("get_inverse_Fourier_transform of the transform"):
                f2 = F.get_inverse_Fourier_transform()
                d2 = numpy.array(f2.data)
            ok_shape = d2.shape == y.shape
            ctx.require("ft-roundtrip", ok_shape, dict(det, what="shape", got=list(d2.shape)))
            if ok_shape:
                ctx.check("ft-roundtrip", float(numpy.max(numpy.abs(d2 - y))), 64 * EPS * nterms * ymax + 1e-300, det)
            axes_equal(ctx, "ft-roundtrip-axis", t, f2.axis, det)
            # the same pair of transforms made while an energy-units context is active: same transform, same round trip
            unit = ["1/cm", "eV", "THz", "meV"][(N + len(kind)) % 4]
            with ctx.lib("transform pair inside energy_units(%s)" % unit):
                with qr.energy_units(unit):
                    Fu = f.get_Fourier_transform()
                    fu2 = Fu.get_inverse_Fourier_transform()
                    fu3 = F.get_inverse_Fourier_transform()
                Fud, du2, du3 = numpy.array(Fu.data), numpy.array(fu2.data), numpy.array(fu3.data)
            detu = dict(det, units_context=unit)
            if Fud.shape == Fd.shape and du2.shape == y.shape and du3.shape == y.shape:
                ctx.check("ft==direct-sum", float(numpy.max(numpy.abs(Fud - Fd))), 64 * EPS * nterms * float(numpy.max(numpy.abs(Fd))) + 1e-300,
                          dict(detu, what="transform made inside the context vs outside"))
                ctx.check("ft-roundtrip", float(numpy.max(numpy.abs(du2 - y))), 64 * EPS * nterms * ymax + 1e-300, dict(detu, what="both transforms inside the context"))
                ctx.check("ft-roundtrip", float(numpy.max(numpy.abs(du3 - y))), 64 * EPS * nterms * ymax + 1e-300, dict(detu, what="inverse (inside the context) of a transform made outside"))
            else:
                ctx.require("ft-roundtrip", False, dict(detu, what="shape"))
            axes_equal(ctx, "ft-roundtrip-axis", t, fu2.axis, detu)
            # the same function objects after their values were changed IN PLACE (a program that rescales or filters what it has): the
            # transforms follow the values the objects hold at the time of the call
            with ctx.lib("transforms repeated after the values were changed in place"):
                fd_ = f.data
                fd_ *= 1.7
                fd_[N - 1] += 0.3
                y_new = numpy.array(f.data, dtype=complex)
                F_new = numpy.array(f.get_Fourier_transform().data)
                Fdat_ = F.data
                Fdat_ *= 0.5
                inv_new = numpy.array(F.get_inverse_Fourier_transform().data)
            if atype == "complete":
                ref_new = fourier.direct_ft(t.data, y_new, wdata, dt)
            else:
                tt_, yy_ = fourier.hermitian_extension(t.data, y_new)
                ref_new = fourier.direct_ft(tt_, yy_, wdata, dt)
            if F_new.shape == ref_new.shape and inv_new.shape == y.shape:
                ctx.check("ft==direct-sum", float(numpy.max(numpy.abs(F_new - ref_new))), ft_bound(nterms, y_new, dt),
                          dict(det, what="second transform of the same object after an in-place change of its values"))
                ctx.check("ft-roundtrip", float(numpy.max(numpy.abs(inv_new - 0.5 * y))), 64 * EPS * nterms * ymax + 1e-300,
                          dict(det, what="inverse transform of a spectrum that was rescaled in place after a first inverse transform"))
            else:
                ctx.require("ft==direct-sum", False, dict(det, what="shape after in-place change"))
            nz = int(numpy.count_nonzero(y))
            ctx.sub(("ft", N, atype, kind), nontrivial=(N >= 3 and (nz >= 2 or kind == "delta")))

        # windowed transform equals the transform of the product
        y = kinds["complex"]
        win = numpy.exp(-numpy.linspace(0, 2, N))
        with ctx.lib("get_Fourier_transform(window=)"):
            t = qr.TimeAxis(start, N, dt, atype=atype)
            Fw = qr.DFunction(t, y.copy()).get_Fourier_transform(window=qr.DFunction(t, win.copy()))
            wdata = numpy.array(Fw.axis.data, dtype=float)
        if atype == "complete":
            ref = fourier.direct_ft(t.data, y * win, wdata, dt)
            nterms = N
        else:
            tt, yy = fourier.hermitian_extension(t.data, y * win)
            ref = fourier.direct_ft(tt, yy, wdata, dt)
            nterms = 2 * N
        ctx.check("ft==direct-sum", float(numpy.max(numpy.abs(numpy.array(Fw.data) - ref))),
                  ft_bound(nterms, y * win, dt),
                  {"N": N, "atype": atype, "data": "windowed"})
        ctx.sub(("ft", N, atype, "windowed"), nontrivial=N >= 3)

    # ---------------------------------- frequency-first transform (complete)
    dw = r3(rng.uniform(0.001, 1.0))
    Y = rng.normal(size=N) + 1j * rng.normal(size=N)
    det = {"N": N, "atype": "complete", "step": dw, "data": "complex", "direction": "frequency-first"}
    with ctx.lib("frequency-first inverse transform"):
        w = qr.FrequencyAxis(-(N // 2) * dw, N, dw, atype="complete")
        G = qr.DFunction(w, Y.copy())
        g = G.get_inverse_Fourier_transform()
        tdata = numpy.array(g.axis.data, dtype=float)
    ref = fourier.direct_ift(w.data, Y, tdata, dw)
    ymax = float(numpy.max(numpy.abs(Y)))
    ctx.check("ift==direct-sum", float(numpy.max(numpy.abs(numpy.array(g.data) - ref))),
              ft_bound(N, Y, dw) / (2 * numpy.pi), det)
    with ctx.lib("transform of the frequency-first inverse transform"):
        G2 = g.get_Fourier_transform()
    ctx.check("ft-roundtrip", float(numpy.max(numpy.abs(numpy.array(G2.data) - Y))), 64 * EPS * N * ymax, det)
    axes_equal(ctx, "ft-roundtrip-axis", w, G2.axis, det)
    from qrv.oracles import units as UU
    unit = ["eV", "THz", "1/cm"][N % 3]
    with ctx.lib("frequency-first transforms inside energy_units(%s)" % unit):
        with qr.energy_units(unit):
            wu = qr.FrequencyAxis(-(N // 2) * dw / UU.E_FAC[unit], N, dw / UU.E_FAC[unit], atype="complete")
            Gu = qr.DFunction(wu, Y.copy())
            gu = Gu.get_inverse_Fourier_transform()
            Gu2 = gu.get_Fourier_transform()
        gud, Gu2d = numpy.array(gu.data), numpy.array(Gu2.data)
    detu = dict(det, units_context=unit)
    ctx.check("ift==direct-sum", float(numpy.max(numpy.abs(gud - ref))), ft_bound(N, Y, dw) / (2 * numpy.pi) + 1e-9 * float(numpy.max(numpy.abs(ref))), dict(detu, what="same function defined and transformed inside the context"))
    ctx.check("ft-roundtrip", float(numpy.max(numpy.abs(Gu2d - Y))), 64 * EPS * N * ymax + 1e-9 * ymax, dict(detu, what="frequency-first round trip inside the context"))
    ctx.sub(("ift", N, "complete"), nontrivial=N >= 3)
