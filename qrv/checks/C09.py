"""C09  Bath correlation functions add linearly and carry consistent parameters.

Addition histories (all orders and bracketings of 3-4 components, in-place
chains, self-addition) are run on real CorrelationFunction / SpectralDensity
objects.  The oracle is the sum of the component data captured right after
each component was constructed; operands are snapshotted before and after.
"""
import itertools
import math
import numpy
from qrv.build import r3

LEVEL = "exploration"
RULE = ("components of types OverdampedBrownian, OverdampedBrownian-HighTemperature, UnderdampedBrownian (and Value-defined as the last right operand), "
        "each constructed under a random energy unit; for every case ALL permutations x ALL binary bracketings of its 3 (or 4) components are evaluated "
        "with '+', plus in-place chains, self-addition, refused temperature mismatches, measured-vs-declared reorganisation energy and Fourier parity; "
        "the same for SpectralDensity with its two constructible types. distinct = (class, function kind, component-type multiset, permutation, bracketing); "
        "non-trivial iff the components are pairwise different functions (max|a-b| > 1e-3 max|a|) and at least two types occur or k >= 3.")
RULE = RULE + " Round-6 workloads: every expression tree is evaluated outside any units context or inside one of 1/cm, eV, THz, meV."
RULE = RULE + " Round-7 workloads: a third of the OverdampedBrownian components carries the optional matsubara parameter."
ASSUMPTIONS = ["additions are performed outside units contexts (the quantifier names unit contexts used for construction)",
               "value-defined functions occur only as right-hand operands and are never part of a left operand that has to be rebuilt",
               "'measured = declared' is claimed for the analytic overdamped types, against the finite-axis value lambda(1-exp(-Tmax/tau)); "
               "refusal of different temperatures is claimed for correlation functions (spectral densities carry no temperature-dependent data)"]
MIN_NONTRIVIAL = {"quick": 400, "thorough": 4000}
REQUIRED_CLAUSES = ["sum-data", "sum-lamb", "operands-unchanged", "different-T-refused", "measured==declared", "even-odd-parity"]
EPS = numpy.finfo(float).eps

UNITS = ["1/cm", "THz", "eV", "meV", "int"]
CM2INT = 1.8836515673088532e-4     # generator side only (descriptor values are in 1/cm)
UFAC = {"1/cm": 1.0, "THz": CM2INT / (2 * math.pi * 1e-3), "eV": 1.0 / 8065.543937, "meV": 1000.0 / 8065.543937, "int": CM2INT}


def bracketings(items):
    """all full binary trees over the ordered list"""
    if len(items) == 1:
        return [items[0]]
    out = []
    for i in range(1, len(items)):
        for l in bracketings(items[:i]):
            for r in bracketings(items[i:]):
                out.append((l, r))
    return out


def gen_component(rng, kinds, T):
    k = str(rng.choice(kinds))
    c = {"ftype": k, "reorg": r3(rng.uniform(5, 120)), "T": T, "unit": str(rng.choice(UNITS))}
    if k in ("OverdampedBrownian", "OverdampedBrownian-HighTemperature"):
        c["cortime"] = r3(rng.uniform(20, 200))
        if k == "OverdampedBrownian" and rng.random() < 0.35:
            # the optional number of Matsubara terms: a property of this component only
            c["matsubara"] = int(rng.choice([3, 20, 30]))
    elif k == "UnderdampedBrownian":
        c["freq"] = r3(rng.uniform(100, 800))
        c["gamma"] = r3(1.0 / rng.uniform(30, 300))     # 1/fs, handed over as a plain number
    return c


def gen_cases(tier, rng):
    cases = []
    nb = 48 if tier == "quick" else 400
    for i in range(nb):
        fk = "CorrelationFunction" if i % 3 != 2 else "SpectralDensity"
        kinds = (["OverdampedBrownian", "OverdampedBrownian-HighTemperature", "UnderdampedBrownian"]
                 if fk == "CorrelationFunction" else ["OverdampedBrownian", "UnderdampedBrownian"])
        k = 3 if (tier == "quick" and i % 4 != 3) or rng.random() < 0.5 else 4
        T = r3(rng.choice([77.0, 150.0, 300.0, 350.0]))
        comps = [gen_component(rng, kinds, T) for _ in range(k)]
        # make sure at least two types
        if len({c["ftype"] for c in comps}) < 2 and len(kinds) > 1:
            other = [x for x in kinds if x != comps[0]["ftype"]][0]
            comps[1] = gen_component(rng, [other], T)
        vd = bool(fk == "CorrelationFunction" and rng.random() < 0.3)
        cases.append({"cls": "bracketings", "fkind": fk, "comps": comps, "value_defined_last": vd,
                      "Nt": int(rng.choice([200, 300, 501])), "dt": float(rng.choice([0.5, 1.0, 2.0])),
                      "distinct_axis_objects": bool(rng.random() < 0.3), "cost": 4 if k == 3 else 30})
    ni = 60 if tier == "quick" else 500
    for i in range(ni):
        fk = "CorrelationFunction" if i % 3 != 2 else "SpectralDensity"
        kinds = (["OverdampedBrownian", "OverdampedBrownian-HighTemperature", "UnderdampedBrownian"]
                 if fk == "CorrelationFunction" else ["OverdampedBrownian", "UnderdampedBrownian"])
        T = r3(rng.choice([77.0, 150.0, 300.0]))
        comps = [gen_component(rng, kinds, T) for _ in range(int(rng.integers(2, 6)))]
        ops = [int(x) for x in rng.integers(0, len(comps), size=int(rng.integers(1, 7)))]
        cases.append({"cls": "inplace", "fkind": fk, "comps": comps, "ops": ops, "self_add_at": int(rng.integers(0, len(ops) + 1)),
                      "Nt": 300, "dt": 1.0, "cost": 2})
    # sums and their copies are separate objects: what is added to one of them later never shows in the other
    for i in range(40 if tier == "quick" else 300):
        kinds = ["OverdampedBrownian", "OverdampedBrownian-HighTemperature", "UnderdampedBrownian"]
        T = r3(rng.choice([77.0, 150.0, 300.0]))
        comps = [gen_component(rng, kinds, T) for _ in range(int(rng.integers(3, 6)))]
        if i % 2 == 0:
            comps[1] = gen_component(rng, ["UnderdampedBrownian"], T)
        cases.append({"cls": "copies", "fkind": "CorrelationFunction", "comps": comps, "nsum": int(rng.integers(1, 3)),
                      "who": ["copy", "original", "both"][i % 3], "Nt": 300, "dt": 1.0, "cost": 2})
    nt = 40 if tier == "quick" else 300
    for i in range(nt):
        T1, T2 = r3(rng.uniform(50, 400)), r3(rng.uniform(50, 400))
        kinds = ["OverdampedBrownian", "OverdampedBrownian-HighTemperature", "UnderdampedBrownian"]
        cases.append({"cls": "temperature", "a": gen_component(rng, kinds, T1), "b": gen_component(rng, kinds, T2),
                      "c": gen_component(rng, kinds[:2], T1), "Nt": 300, "dt": 1.0, "cost": 1})
    nm = 80 if tier == "quick" else 600
    for i in range(nm):
        T = r3(rng.uniform(50, 400))
        c = gen_component(rng, ["OverdampedBrownian", "OverdampedBrownian-HighTemperature"], T)
        Nt = int(rng.integers(150, 1500))
        cases.append({"cls": "measured+parity", "comp": c, "Nt": Nt, "dt": float(rng.choice([0.5, 1.0, 2.0])), "cost": 1 + Nt / 500})
    # axis lengths for which the derived frequency axis contains exactly 0.0 (for most lengths rounding leaves 1e-16 there)
    for Nt in (280, 560, 1120):
        c = gen_component(rng, ["OverdampedBrownian"], 300.0)
        c.pop("matsubara", None)
        c["cortime"] = 25.0
        cases.append({"cls": "measured+parity", "comp": c, "Nt": Nt, "dt": 1.0, "cost": 1 + Nt / 500})
    return cases


# ----------------------------------------------------------------------
def construct(qr, fkind, axis, c, values=None):
    prm = {"ftype": c["ftype"], "T": c["T"]}
    u = c["unit"]
    prm["reorg"] = c["reorg"] * UFAC[u]
    if "cortime" in c:
        prm["cortime"] = c["cortime"]
    if "matsubara" in c:
        prm["matsubara"] = c["matsubara"]
    if "freq" in c:
        prm["freq"] = c["freq"] * UFAC[u]
    if "gamma" in c:
        # 'gamma' is treated as an energy parameter by the library: hand it
        # over so that the internal value is c["gamma"] (1/fs)
        prm["gamma"] = c["gamma"] / CM2INT * UFAC[u]
    cls = qr.CorrelationFunction if fkind == "CorrelationFunction" else qr.SpectralDensity
    with qr.energy_units(u):
        if values is not None:
            return cls(axis, prm, values=values)
        return cls(axis, prm)


def state_of(f):
    return (numpy.array(f.data, copy=True), float(f.lamb), len(f.params))


def unchanged(ctx, f, st, det):
    d, l, n = st
    ok = (numpy.array_equal(numpy.asarray(f.data), d) and float(f.lamb) == l and len(f.params) == n)
    return ctx.require("operands-unchanged", ok, dict(det, lamb_before=l, lamb_after=float(f.lamb), nparams=[n, len(f.params)],
                                                      max_data_change=float(numpy.max(numpy.abs(numpy.asarray(f.data) - d)))))


def evaluate(tree, objs):
    if isinstance(tree, tuple):
        return evaluate(tree[0], objs) + evaluate(tree[1], objs)
    return objs[tree]


def tree_str(tree):
    if isinstance(tree, tuple):
        return "(" + tree_str(tree[0]) + "+" + tree_str(tree[1]) + ")"
    return str(tree)


def leftmost_ok(tree, vd_index):
    """the value-defined component may only appear as a right operand whose
    left sibling chain never has to rebuild it: i.e. it must be the right
    child of the root"""
    if vd_index is None:
        return True

    def contains(t):
        if isinstance(t, tuple):
            return contains(t[0]) or contains(t[1])
        return t == vd_index
    if not isinstance(tree, tuple):
        return False
    return tree[1] == vd_index and not contains(tree[0])


def run_case(case, ctx):
    import quantarhei as qr
    cls = case["cls"]
    t = qr.TimeAxis(0.0, case["Nt"], case["dt"])

    if cls == "bracketings":
        fk = case["fkind"]
        comps = case["comps"]
        k = len(comps)
        with ctx.lib("component construction"):
            objs = []
            for c in comps:
                ax = qr.TimeAxis(0.0, case["Nt"], case["dt"]) if case["distinct_axis_objects"] else t
                objs.append(construct(qr, fk, ax, c))
        vd_index = None
        if case["value_defined_last"]:
            base = numpy.array(objs[0].data) * 0.37 + 0.1j * numpy.array(objs[-1].data)
            with ctx.lib("value-defined construction"):
                v = construct(qr, fk, t, {"ftype": "Value-defined", "reorg": 17.0, "T": comps[0]["T"], "unit": "1/cm"}, values=base.copy())
            objs.append(v)
            vd_index = k
        n = len(objs)
        ref = [state_of(o) for o in objs]
        scale = max(float(numpy.max(numpy.abs(r[0]))) for r in ref)
        total = sum(r[0] for r in ref)
        ltot = sum(r[1] for r in ref)
        distinct_fn = all(float(numpy.max(numpy.abs(ref[i][0] - ref[j][0]))) > 1e-3 * scale for i in range(n) for j in range(i + 1, n))
        types = sorted(c["ftype"] for c in comps) + (["Value-defined"] if vd_index is not None else [])
        nsum = case.get("Nt", 0)
        for perm in itertools.permutations(range(n)):
            if vd_index is not None and perm[-1] != vd_index:
                continue
            for tree in bracketings(list(perm)):
                if not leftmost_ok(tree, vd_index):
                    continue
                det = {"fkind": fk, "expr": tree_str(tree), "types": [(comps[i]["ftype"] if i < k else "Value-defined") for i in perm],
                       "units": [(comps[i]["unit"] if i < k else "1/cm") for i in perm]}
                # the additions themselves are made outside any units context or inside one (as the package's own tests do with +=)
                nsum += 1
                uctx = [None, "1/cm", None, "eV", "THz", None, "meV"][nsum % 7]
                det["added_inside_units_context"] = uctx
                with ctx.lib("addition " + fk, mechanism=None):
                    if uctx is None:
                        res = evaluate(tree, objs)
                    else:
                        with qr.energy_units(uctx):
                            res = evaluate(tree, objs)
                            lam_in = res.get_reorganization_energy()
                        ctx.check("sum-lamb", abs(lam_in - ltot / CM2INT * UFAC[uctx]), 1e-7 * abs(ltot / CM2INT * UFAC[uctx]),
                                  dict(det, what="get_reorganization_energy of a sum formed and read inside a units context"))
                rd = numpy.asarray(res.data)
                ok = rd.shape == total.shape
                ctx.require("sum-data", ok, dict(det, what="shape"))
                if ok:
                    ctx.check("sum-data", float(numpy.max(numpy.abs(rd - total))), 8 * EPS * n * scale, dict(det, scale=scale))
                ctx.check("sum-lamb", abs(float(res.lamb) - ltot), 8 * EPS * n * abs(ltot), det)
                ctx.require("sum-params", len(res.params) == n, dict(det, nparams=len(res.params)))
                for i, o in enumerate(objs):
                    unchanged(ctx, o, ref[i], dict(det, operand=i))
                ctx.sub((fk, tuple(types), perm, tree_str(tree)), nontrivial=distinct_fn and (len(set(types)) >= 2 or n >= 3))
                if len(ctx.violations) > 10:
                    break
        # get_reorganization_energy under a units context = declared sum in those units
        res = evaluate(bracketings(list(range(n)))[0], objs)
        for u in ("1/cm", "eV", "THz"):
            with qr.energy_units(u):
                got = res.get_reorganization_energy()
            want = (sum(c["reorg"] for c in comps) + (17.0 if vd_index is not None else 0.0)) * UFAC[u]
            ctx.check("sum-lamb", abs(got - want), 1e-7 * abs(want), {"what": "get_reorganization_energy under " + u, "got": got, "want": want})
        ctx.key((fk, tuple(types), k, case["Nt"]))
        ctx.nontrivial(distinct_fn)
        return

    if cls == "inplace":
        fk = case["fkind"]
        with ctx.lib("component construction"):
            objs = [construct(qr, fk, t, c) for c in case["comps"]]
        ref = [state_of(o) for o in objs]
        scale = max(float(numpy.max(numpy.abs(r[0]))) for r in ref)
        with ctx.lib("copy of the accumulator"):
            acc = construct(qr, fk, t, case["comps"][0])
        exp = ref[0][0].copy()
        lexp = ref[0][1]
        nexp = 1
        for step, j in enumerate(case["ops"]):
            if step == case["self_add_at"]:
                with ctx.lib("a += a"):
                    acc += acc
                exp = 2 * exp
                lexp = 2 * lexp
                nexp = 2 * nexp
            with ctx.lib("a += b"):
                acc += objs[j]
            exp = exp + ref[j][0]
            lexp += ref[j][1]
            nexp += 1
            det = {"fkind": fk, "step": step, "added": j, "ops": case["ops"], "self_add_at": case["self_add_at"]}
            ctx.check("sum-data", float(numpy.max(numpy.abs(numpy.asarray(acc.data) - exp))), 8 * EPS * (nexp + 1) * scale * (2 ** 1), det)
            ctx.check("sum-lamb", abs(float(acc.lamb) - lexp), 8 * EPS * (nexp + 1) * abs(lexp), det)
            ctx.require("sum-params", len(acc.params) == nexp, dict(det, nparams=len(acc.params), want=nexp))
            for i, o in enumerate(objs):
                unchanged(ctx, o, ref[i], dict(det, operand=i))
        ctx.key(("inplace", fk, tuple(c["ftype"] for c in case["comps"]), tuple(case["ops"]), case["self_add_at"]))
        ctx.nontrivial(len(case["ops"]) >= 2)
        return

    if cls == "copies":
        fk = case["fkind"]
        with ctx.lib("component construction"):
            objs = [construct(qr, fk, t, c) for c in case["comps"]]
        ref = [state_of(o) for o in objs]
        scale = max(float(numpy.max(numpy.abs(r[0]))) for r in ref)
        n0 = case["nsum"] + 1
        with ctx.lib("sum and copy"):
            ssum = objs[0]
            for j in range(1, n0):
                ssum = ssum + objs[j]
            cp = ssum.copy()
        exp_s = sum(ref[j][0] for j in range(n0))
        lam_s = sum(ref[j][1] for j in range(n0))
        det = {"fkind": fk, "types": [c["ftype"] for c in case["comps"]], "summed": n0, "who": case["who"]}
        tol = 8 * EPS * (len(objs) + 2) * scale * 2
        ctx.check("sum-data", float(numpy.max(numpy.abs(numpy.asarray(cp.data) - exp_s))), tol, dict(det, what="copy of a sum"))
        ctx.check("sum-lamb", abs(float(cp.lamb) - lam_s), 8 * EPS * (n0 + 1) * abs(lam_s), dict(det, what="copy of a sum"))
        ctx.require("sum-params", len(cp.params) == n0, dict(det, nparams=len(cp.params), want=n0))
        exp_c, exp_o = exp_s.copy(), exp_s.copy()
        lam_c, lam_o = lam_s, lam_s
        rest = list(range(n0, len(objs)))
        with ctx.lib("in-place additions after copying"):
            for k, j in enumerate(rest):
                tgt = case["who"] if case["who"] != "both" else ("copy" if k % 2 == 0 else "original")
                if tgt == "copy":
                    cp += objs[j]
                    exp_c = exp_c + ref[j][0]
                    lam_c += ref[j][1]
                else:
                    ssum += objs[j]
                    exp_o = exp_o + ref[j][0]
                    lam_o += ref[j][1]
                for name, f, e, l in (("copy", cp, exp_c, lam_c), ("original", ssum, exp_o, lam_o)):
                    ctx.check("sum-data", float(numpy.max(numpy.abs(numpy.asarray(f.data) - e))), tol, dict(det, what=name + " after an in-place addition to the " + tgt, step=k))
                    ctx.check("sum-lamb", abs(float(f.lamb) - l), 8 * EPS * (len(objs) + 1) * abs(l), dict(det, what=name + " after an in-place addition to the " + tgt, step=k))
        for i2, o in enumerate(objs):
            unchanged(ctx, o, ref[i2], dict(det, operand=i2))
        ctx.key(("copies", tuple(c["ftype"] for c in case["comps"]), n0, case["who"]))
        ctx.nontrivial(len(rest) >= 1)
        return

    if cls == "temperature":
        a = construct(qr, "CorrelationFunction", t, case["a"])
        b = construct(qr, "CorrelationFunction", t, case["b"])
        c = construct(qr, "CorrelationFunction", t, case["c"])
        differ = case["a"]["T"] != case["b"]["T"]
        sa, sb = state_of(a), state_of(b)
        for how in ("a+b", "a+=b", "add_to_data", "(a+c)+b", "b+(a+c)"):
            det = {"how": how, "Ta": case["a"]["T"], "Tb": case["b"]["T"]}
            refused = False
            try:
                if how == "a+b":
                    a + b
                elif how == "a+=b":
                    a += b
                elif how == "add_to_data":
                    a.add_to_data(b)
                elif how == "(a+c)+b":
                    (a + c) + b
                else:
                    b + (a + c)
            except Exception:
                refused = True
            if differ:
                ctx.require("different-T-refused", refused, det)
                unchanged(ctx, a, sa, dict(det, operand="a (left operand of a refused addition)"))
                unchanged(ctx, b, sb, dict(det, operand="b"))
            if ctx.violations:
                break
        ctx.key(("temperature", case["a"]["ftype"], case["b"]["ftype"], case["a"]["T"], case["b"]["T"]))
        ctx.nontrivial(differ)
        return

    if cls == "measured+parity":
        c = case["comp"]
        cf = construct(qr, "CorrelationFunction", t, c)
        lam_int = c["reorg"] * CM2INT
        tmax = t.data[-1]
        want = lam_int * (1.0 - math.exp(-tmax / c["cortime"]))
        with ctx.lib("measure_reorganization_energy"):
            got = cf.measure_reorganization_energy()
        # spline quadrature of exp(-t/tau): relative error ~ (dt/tau)^4
        tol = max(1e-3, 5 * (case["dt"] / c["cortime"]) ** 3) * want
        ctx.check("measured==declared", abs(got - want), tol, {"got": got, "finite_axis_value": want, "declared": lam_int, "tau": c["cortime"], "Tmax": tmax})
        ctx.check("measured==declared", abs(float(cf.lamb) - lam_int), 1e-7 * lam_int, {"what": "stored lamb vs declared (unit %s)" % c["unit"]})
        with qr.energy_units("1/cm"):
            g = cf.get_reorganization_energy()
        ctx.check("measured==declared", abs(g - c["reorg"]), 1e-7 * c["reorg"], {"what": "get_reorganization_energy in 1/cm", "got": g})
        with ctx.lib("Even/OddFTCorrelationFunction"):
            ef = cf.get_EvenFTCorrelationFunction()
            of = cf.get_OddFTCorrelationFunction()
            e, o = numpy.asarray(ef.data), numpy.asarray(of.data)
            sd = construct(qr, "SpectralDensity", t, dict(c, ftype="OverdampedBrownian"))
            s = numpy.asarray(sd.data)
            axes = [numpy.asarray(ef.axis.data, dtype=float), numpy.asarray(of.axis.data, dtype=float), numpy.asarray(sd.axis.data, dtype=float)]
        for (name, arr, sign), wax in zip((("even", e, 1.0), ("odd", o, -1.0), ("spectral-density", s, -1.0)), axes):
            sc = float(numpy.max(numpy.abs(arr)))
            res = float(numpy.max(numpy.abs(arr[1:] - sign * arr[1:][::-1])))
            # the grid itself is symmetric only to rounding (w_k = -w_{N-k} up to eps N |w|max): a function sampled on it inherits
            # slope x asymmetry (finite-difference slope of the data, which underestimates unresolved peaks, hence also 1e-7 of the scale)
            asym = float(numpy.max(numpy.abs(wax[1:] + wax[1:][::-1])))
            slope = float(numpy.max(numpy.abs(numpy.diff(arr) / numpy.diff(wax))))
            ctx.check("even-odd-parity", res, 16 * slope * asym + 1e-7 * sc + 1e-300, {"part": name, "scale": sc, "axis_asymmetry": asym, "max_slope": slope})
            ctx.require("even-odd-parity", sc > 0, {"part": name, "why": "identically zero"})
        with ctx.lib("SpectralDensity.measure_reorganization_energy"):
            ms = sd.measure_reorganization_energy()
        # the frequency window cuts the Lorentzian tail: lambda * (2/pi) atan(w_max tau) is what the data hold
        wmax = math.pi / case["dt"]
        want_sd = lam_int * (2 / math.pi) * math.atan(wmax * c["cortime"])
        # the Lorentzian J(w)/w of width 1/tau must be resolved by the frequency grid dw = pi/(Nt dt)
        if case["Nt"] * case["dt"] >= 8 * c["cortime"]:
            ctx.check("measured==declared", abs(ms - want_sd), 1e-2 * want_sd,
                      {"what": "SpectralDensity", "got": ms, "window_value": want_sd, "declared": lam_int})
        ctx.key(("measured", c["ftype"], c["reorg"], c["cortime"], case["Nt"], case["dt"]))
        ctx.nontrivial(True)
