"""C11  Linear spectra match the Fourier integral and symmetry relations.

The spectrum returned by the real AbsSpectrumCalculator is compared, point by
point on the returned axis, with an O(N^2) direct Fourier sum of an
independently assembled dipole correlation function (eigenvectors from an
independent eigh, line-shape functions from the analytic double integral of the
bath's correlation function).  Scale / rotation / permutation / coupling-sweep
runs are metamorphic comparisons of two real runs; inputs are snapshotted
around the call.
"""
import io
import math
import contextlib
import numpy
from qrv import build, sentinels
from qrv.build import r3
from qrv.oracles import bath as B
from qrv.oracles import units as U

LEVEL = "exploration"
RULE = ("monomers and aggregates of 2-4 two-level sites with overdamped baths (per-site or shared), lines anywhere in the central half of the spectral window incl. "
        "at the RWA frequency and near both edges, odd and even axis lengths 200-1200, dt 0.5-2 fs, random dipole geometries, random proper rotations, all "
        "permutations (N<=3) or 3 random ones, scale factors 0.3-3, couplings 0-400 1/cm, with and without a supplied (Redfield, time-independent or time-dependent) "
        "relaxation tensor (also combined Redfield-Foerster with a coupling cut-off: an effective Hamiltonian that keeps a remainder coupling). distinct = (system class, N, rounded parameters, axis); non-trivial iff the spectrum has a resolved line: its maximum lies inside the "
        "returned window and exceeds 100x the comparison tolerance.")
RULE = RULE + " Round-6 workloads: half of the monomers have a non-zero (positive or negative) ground-state energy."
RULE = RULE + " Round-7 workloads: aggregates are also built with mult=2 and must give the same spectrum."
ASSUMPTIONS = ["point-wise tolerance 1e-3 of the spectrum's maximum (the library integrates C(t) to g(t) with splines, the oracle uses the closed form)",
               "the natural (radiative) width the library adds for monomers, ~1e-9 1/fs, is below the tolerance and not modelled",
               "uncorrelated site baths: g_a(t) = sum_n |c_na|^4 g_n(t)"]
MIN_NONTRIVIAL = {"quick": 40, "thorough": 300}
REQUIRED_CLAUSES = ["spectrum==direct-fourier-sum", "line-position", "scales-with-dipole-squared", "rotation-invariant", "permutation-invariant",
                    "integral-independent-of-coupling", "inputs-unchanged"]
TIMEOUT = {"quick": 900, "thorough": 3400}
EPS = numpy.finfo(float).eps


def gen_cases(tier, rng):
    cases = []
    n = 60 if tier == "quick" else 400
    for i in range(n):
        N = int(rng.choice([1, 1, 2, 3, 4])) if i % 3 else int(rng.integers(1, 5))
        dt = float(rng.choice([0.5, 1.0, 1.0, 2.0]))
        Nt = int(rng.integers(200, 1201))
        T = r3(rng.uniform(77, 350))
        s = build.gen_system(rng, N=max(N, 1), T=T, dt=dt, Nt=Nt, jmax=400.0, spread=400.0, lam=(20.0, 150.0), tau=(30.0, 120.0),
                             zero_coupling=bool(rng.random() < 0.15))
        for b in s["bath"]:
            b["ftype"] = "OverdampedBrownian"
        # place the lines inside the central half of the window: half width of the returned window = pi/(2 dt) ... use a fraction of it
        halfwin_cm = (math.pi / (2 * dt)) / U.E_FAC["1/cm"]
        where = str(rng.choice(["centre", "centre", "low-edge", "high-edge"]))
        cases.append({"cls": ("monomer" if N == 1 else "aggregate"), "N": N, "sys": s, "where": where, "halfwin_cm": halfwin_cm,
                      "with_tensor": (str(rng.choice(["none", "none", "stR", "stR-TD", "cRF-cut"])) if N > 1 else "none"),
                      "seed": int(rng.integers(1 << 30)), "cost": 2 + N * Nt / 300.0 + (Nt / 60.0 if N > 1 else 0)})
    return cases


def direct_spectrum(w_axis, rwa, tt, dt, lines):
    """lines: list of (strength, omega, g(t) array, extra decay array or None); returns S(w_k) = 2 Re sum_n a(t_n) e^{i (w_k - rwa) t_n} dt - a(0) dt"""
    a = numpy.zeros(len(tt), dtype=complex)
    for (dd, om, g, extra) in lines:
        f = dd * numpy.exp(-g - 1j * (om - rwa) * tt)
        if extra is not None:
            f = f * extra
        a = a + f
    out = numpy.empty(len(w_axis))
    x = numpy.asarray(w_axis) - rwa
    for k0 in range(0, len(x), 256):
        ph = numpy.exp(1j * numpy.outer(x[k0:k0 + 256], tt))
        out[k0:k0 + 256] = 2.0 * (ph @ a).real * dt - a[0].real * dt
    return out


def run_case(case, ctx):
    import quantarhei as qr
    from scipy.spatial.transform import Rotation
    rng = numpy.random.default_rng(case["seed"])
    desc = case["sys"]
    N = case["N"]
    out = io.StringIO()
    dt = desc["dt"]
    kT = U.KB_INT_PER_K * desc["T"]

    def build_system(scale=1.0, rot=None, perm=None, J=None, shift_cm=0.0, mult=1):
        d = dict(desc)
        order = list(range(N)) if perm is None else list(perm)
        d["E"] = [desc["E"][i] + shift_cm for i in order]
        d["bath"] = [desc["bath"][i] for i in order]
        dip = numpy.array([desc["dip"][i] for i in order], dtype=float) * scale
        if rot is not None:
            dip = dip @ rot.T
        d["dip"] = dip.tolist()
        Jm = numpy.array(desc["J"] if J is None else J, dtype=float)
        d["J"] = Jm[numpy.ix_(order, order)].tolist()
        d["shared_bath"] = False
        if N == 1:
            t = build.timeaxis(d)
            # the ground-state energy of a molecule need not be the zero of energy: only the transition energy matters
            g0 = [0.0, 0.0, 1500.0, -730.0][case["seed"] % 4]
            with qr.energy_units("1/cm"):
                mol = qr.Molecule([g0, g0 + float(d["E"][0])])
            mol.set_dipole(0, 1, [float(x) for x in d["dip"][0]])
            cf = build.make_cf(t, d["bath"][0])
            mol.set_transition_environment((0, 1), cf)
            mol.set_electronic_rwa([0, 1])
            return mol, t, d
        agg, t, cfs = build.make_aggregate(d, mult=mult)
        return agg, t, d

    # where the lines sit in the window: shift all site energies so that the mean transition energy is at the chosen offset from the RWA frequency
    # (the RWA frequency follows the block average, so the offset is produced by the energy spread itself: keep the generator's spread)
    def spectrum(sysobj, t, tensor=None, hamR=None, repeat_box=None):
        with contextlib.redirect_stdout(out):
            if tensor is not None:
                calc = qr.AbsSpectrumCalculator(t, system=sysobj, relaxation_tensor=tensor, effective_hamiltonian=hamR)
            else:
                calc = qr.AbsSpectrumCalculator(t, system=sysobj)
            calc.bootstrap()
            sp = calc.calculate(raw=True)
            first = (numpy.array(sp.axis.data, dtype=float), numpy.array(sp.data, dtype=float), float(calc.rwa))
            if repeat_box is not None:
                # the same calculator asked again, and once more after a second bootstrap
                sp2 = calc.calculate(raw=True)
                repeat_box.append((numpy.array(sp2.axis.data, dtype=float), numpy.array(sp2.data, dtype=float)))
                calc.bootstrap()
                sp3 = calc.calculate(raw=True)
                repeat_box.append((numpy.array(sp3.axis.data, dtype=float), numpy.array(sp3.data, dtype=float)))
        return first

    with ctx.lib("system construction", mechanism=None):
        sysobj, t, d0 = build_system()
        tensor = hamR = None
        if case["with_tensor"] != "none":
            with contextlib.redirect_stdout(out):
                if case["with_tensor"] == "cRF-cut":
                    # couplings below a cut-off are left out of the effective Hamiltonian (it keeps them as a remainder)
                    offd = numpy.abs(numpy.array(desc["J"], dtype=float)[numpy.triu_indices(N, 1)])
                    jcut_cm = float(numpy.median(offd[offd > 0])) * 1.000001 if numpy.any(offd > 0) else 1.0
                    tensor, hamR = sysobj.get_RelaxationTensor(t, relaxation_theory="cRF", coupling_cutoff=jcut_cm * U.E_FAC["1/cm"])
                else:
                    tensor, hamR = sysobj.get_RelaxationTensor(t, relaxation_theory="stR", time_dependent=(case["with_tensor"] == "stR-TD"))
    Hobj = sysobj.get_Hamiltonian()
    Dobj = sysobj.get_TransitionDipoleMoment() if N > 1 else None
    snaps_before = {"H": sentinels.snapshot(Hobj)}
    if Dobj is not None:
        snaps_before["D"] = sentinels.snapshot(Dobj)
    if tensor is not None:
        snaps_before["R"] = sentinels.snapshot(tensor)
        snaps_before["HR"] = sentinels.snapshot(hamR)
    reps = []
    with ctx.lib("AbsSpectrumCalculator.calculate", mechanism=None):
        w, S, rwa = spectrum(sysobj, t, tensor, hamR, repeat_box=reps)
    for k, (w_r, S_r) in enumerate(reps):
        ok_r = w_r.shape == w.shape and S_r.shape == S.shape
        ctx.require("inputs-unchanged", ok_r, {"what": "repeated calculation: shapes", "repeat": k})
        if ok_r:
            ctx.check("inputs-unchanged", max(float(numpy.max(numpy.abs(w_r - w))) / max(float(numpy.max(numpy.abs(w))), 1e-300),
                                              float(numpy.max(numpy.abs(S_r - S))) / max(float(numpy.max(numpy.abs(S))), 1e-300)), 1e-12,
                      {"what": ["second calculate() on the same calculator", "calculate() after a second bootstrap()"][k], "with_tensor": case["with_tensor"], "N": N})
    snaps_after = {"H": sentinels.snapshot(Hobj)}
    if Dobj is not None:
        snaps_after["D"] = sentinels.snapshot(Dobj)
    if tensor is not None:
        snaps_after["R"] = sentinels.snapshot(tensor)
        snaps_after["HR"] = sentinels.snapshot(hamR)
    bad = [(k, sentinels.diff_snapshots(snaps_before[k], snaps_after[k])[:3]) for k in snaps_before if sentinels.diff_snapshots(snaps_before[k], snaps_after[k])]
    ctx.require("inputs-unchanged", not bad, {"changed": [(k, [list(x) for x in v]) for k, v in bad], "with_tensor": case["with_tensor"], "N": N})

    # ------------------------------------------------------ reference
    tt = numpy.array(t.data)
    Nt = len(tt)
    E = numpy.array([U.e_to_int(e, "1/cm") for e in d0["E"]])
    Jm = numpy.array(d0["J"], dtype=float) * U.E_FAC["1/cm"]
    dip = numpy.array(d0["dip"], dtype=float)
    gs = [B.g_of_t(tt, b["reorg"] * U.E_FAC["1/cm"], b["cortime"], kT, b["ftype"]) for b in d0["bath"]]
    if N == 1:
        lines = [(float(dip[0] @ dip[0]), E[0], gs[0], None)]
        rwa_ref = E[0]
    else:
        if case["with_tensor"] == "cRF-cut":
            Jm = numpy.where(numpy.abs(Jm) >= jcut_cm * U.E_FAC["1/cm"], Jm, 0.0)
        H = numpy.diag(E) + Jm
        wv, C = numpy.linalg.eigh(H)
        rwa_ref = float(numpy.mean(E))
        lines = []
        extra_src = None
        if tensor is not None:
            with qr.eigenbasis_of(hamR):
                Rd = numpy.array(tensor.data)
            extra_src = Rd
        for a in range(N):
            da = C[:, a] @ dip
            ga = sum((C[n, a] ** 4) * gs[n] for n in range(N))
            extra = None
            if extra_src is not None:
                if extra_src.ndim == 5:
                    extra = numpy.exp(extra_src[:, a + 1, a + 1, a + 1, a + 1] * tt)
                else:
                    extra = numpy.exp(extra_src[a + 1, a + 1, a + 1, a + 1] * tt)
            lines.append((float(da @ da), float(wv[a]), ga, extra))
    det = {"N": N, "Nt": Nt, "dt": dt, "with_tensor": case["with_tensor"], "T": desc["T"]}
    ctx.check("axis", abs(rwa - rwa_ref), 1e-7 * abs(rwa_ref), dict(det, what="RWA frequency = block average", got=rwa, want=rwa_ref))
    ctx.require("axis", len(w) == Nt == len(S), dict(det, what="lengths", axis=len(w), data=len(S)))
    dw = math.pi / (Nt * dt)
    ctx.check("axis", float(numpy.max(numpy.abs(numpy.diff(w) - dw))), 1e-9 * dw, dict(det, what="axis step = pi/(N dt)"))
    ctx.check("axis", abs(w[0] - (rwa_ref + (Nt // 2 - Nt) * dw)), 1e-6 * abs(rwa_ref), dict(det, what="axis start = central half of the window"))
    ref = direct_spectrum(w, rwa_ref, tt, dt, lines)
    smax = float(numpy.max(numpy.abs(ref)))
    # quadrature uncertainty of g(t): the same spectrum with g(t) from a double cumulative trapezoid of the correlation
    # function sampled on the time axis (what any integrator of the sampled C(t) can know); matters for dt >= 2 fs
    gq = []
    for b in d0["bath"]:
        c = B.Ct(tt, b["reorg"] * U.E_FAC["1/cm"], b["cortime"], kT, b["ftype"])
        h1 = numpy.concatenate([[0], numpy.cumsum((c[1:] + c[:-1]) / 2) * dt])
        gq.append(numpy.concatenate([[0], numpy.cumsum((h1[1:] + h1[:-1]) / 2) * dt]))
    if N == 1:
        lines_q = [(lines[0][0], lines[0][1], gq[0], None)]
    else:
        lines_q = [(lines[a][0], lines[a][1], sum((C[n, a] ** 4) * gq[n] for n in range(N)), lines[a][3]) for a in range(N)]
    ref_q = direct_spectrum(w, rwa_ref, tt, dt, lines_q)
    quad = float(numpy.max(numpy.abs(ref - ref_q)))
    tol = 1e-3 * smax + quad
    res = float(numpy.max(numpy.abs(S - ref)))
    # residual at the best integer shift (diagnostic: a displaced spectrum)
    best = min(range(-4, 5), key=lambda sh: float(numpy.max(numpy.abs(numpy.roll(S, sh)[8:-8] - ref[8:-8]))))
    ctx.check("spectrum==direct-fourier-sum", res, tol, dict(det, max_of_spectrum=smax, best_integer_shift=best, quadrature_uncertainty=quad))
    kp, kr = int(numpy.argmax(S)), int(numpy.argmax(ref))
    inside = 8 < kr < Nt - 8
    if inside:
        # two lines of (nearly) equal height: either maximum is "the" line position
        twin = ref[kp] >= ref[kr] - 2 * tol
        ctx.check("line-position", 0.0 if twin and abs(kp - kr) > 1 else abs(kp - kr), 1.0,
                  dict(det, peak_index=kp, reference_peak_index=kr, grid_step_cm=dw / U.E_FAC["1/cm"]))
    nontrivial = inside and smax > 0

    # ------------------------------------------------ metamorphic runs (real code vs real code)
    if case["with_tensor"] == "none":
        s = r3(rng.uniform(0.3, 3.0))
        R = Rotation.random(random_state=int(rng.integers(1 << 30))).as_matrix()
        with ctx.lib("scaled / rotated systems", mechanism=None):
            o1, t1, _d = build_system(scale=s)
            w1, S1, _r = spectrum(o1, t1)
            o2, t2, _d = build_system(rot=R)
            w2, S2, _r = spectrum(o2, t2)
        # monomers carry a radiative width proportional to |d|^2 (~1e-9 1/fs): exact scaling is broken at the 1e-7 level there
        ctx.check("scales-with-dipole-squared", float(numpy.max(numpy.abs(S1 - s * s * S))), (1e-5 if N == 1 else 1e-9) * s * s * smax, dict(det, factor=s))
        ctx.check("rotation-invariant", float(numpy.max(numpy.abs(S2 - S))), 1e-9 * smax, det)
        if N > 1:
            # the linear spectrum only involves the one-exciton band: an aggregate built with two-exciton states gives the same spectrum
            with ctx.lib("aggregate built with mult=2", mechanism=None):
                o5, t5, _d = build_system(mult=2)
                w5, S5, _r = spectrum(o5, t5)
            ok5 = S5.shape == S.shape
            ctx.require("spectrum==direct-fourier-sum", ok5, dict(det, what="shape of the spectrum of the aggregate built with mult=2"))
            if ok5:
                ctx.check("spectrum==direct-fourier-sum", float(numpy.max(numpy.abs(S5 - S))), 1e-9 * smax, dict(det, what="aggregate built with two-exciton states (mult=2) vs mult=1"))
        if N > 1:
            import itertools
            perms = list(itertools.permutations(range(N)))[1:] if N <= 3 else [tuple(rng.permutation(N)) for _ in range(3)]
            for p in perms[:5]:
                with ctx.lib("permuted system", mechanism=None):
                    o3, t3, _d = build_system(perm=[int(x) for x in p])
                    w3, S3, _r = spectrum(o3, t3)
                ctx.check("permutation-invariant", float(numpy.max(numpy.abs(S3 - S))), 1e-8 * smax, dict(det, perm=[int(x) for x in p]))
                ctx.check("permutation-invariant", float(numpy.max(numpy.abs(w3 - w))), 1e-9 * abs(rwa_ref), dict(det, perm=[int(x) for x in p], what="axis"))
            # coupling sweep with one shared bath: integral proportional to sum |d_n|^2
            integ = []
            dsum = float(numpy.sum(dip ** 2))
            gsh = B.g_of_t(numpy.array([tt[-1]]), desc["bath"][0]["reorg"] * U.E_FAC["1/cm"], desc["bath"][0]["cortime"], kT, desc["bath"][0]["ftype"])[0]
            decayed = math.exp(-gsh.real / N) < 1e-3      # delocalised states dephase up to N times slower
            base = numpy.array(desc["J"], dtype=float)
            shared = dict(desc["bath"][0])
            if not decayed:
                ctx.event("coupling_sweeps_skipped_signal_not_decayed_within_time_axis")
            for f in ((0.0, 0.5, 1.0, 1.7) if decayed else ()):
                with ctx.lib("coupling sweep", mechanism=None):
                    dd = dict(desc)
                    o4, t4, _d = build_system(J=(base * f))
                    # same bath on all sites for this clause
                    if True:
                        d4 = dict(desc, bath=[shared] * N, J=(base * f).tolist(), shared_bath=False)
                        a4, t4, _c = build.make_aggregate(d4)
                        w4, S4, _r = spectrum(a4, t4)
                integ.append(float(numpy.sum(S4) * dw))
            integ = numpy.array(integ) if decayed else numpy.array([1.0])
            ctx.check("integral-independent-of-coupling", float(numpy.max(numpy.abs(integ - integ[0])) / abs(integ[0])), 1e-3,
                      dict(det, integrals=integ.tolist(), sum_d2=dsum, ratio_to_2pi_sum_d2=float(integ[0] / (2 * math.pi * dsum))))
    ctx.key((case["cls"], N, tuple(desc["E"]), Nt, dt, case["with_tensor"]))
    ctx.nontrivial(nontrivial and smax > 100 * tol * 1e-3)
