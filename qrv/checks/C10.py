"""C10  Vibronic structure follows the displaced-oscillator model.

The real shift operators, Mode accessors and vibronic aggregate builds are
compared with the closed-form (Laguerre) displaced-oscillator overlaps.
"""
import math
import itertools
import numpy
from qrv.build import r3
from qrv.oracles import fc as fco

LEVEL = "exploration"
RULE = ("shift operators for basis sizes 12-100 and coordinate shifts in [-3.5,3.5] incl. 0; aggregates of 1-3 molecules with 0-2 modes each, "
        "level counts 1-4 per electronic state (different in ground and excited state), Huang-Rhys factors 0-3 incl. 0, couplings incl. 0, "
        "multiplicity 1 and 2 (two-exciton builds also with fem_full=True, where the coupling connects the ground state and the two-exciton band). Every Hamiltonian and dipole element between all pairs of vibronic states is compared. "
        "distinct = (class, structure of modes/level counts, rounded parameters); non-trivial iff at least one mode has a non-zero Huang-Rhys factor "
        "and more than one level, and (aggregates) at least one non-zero resonance coupling or dipole.")
RULE = RULE + " Round-7 workloads: single molecules with 2-4 modes: every electronic block of Molecule.get_Hamiltonian has the spectrum of independent modes (sums of the single-mode levels)."
ASSUMPTIONS = ["full vibrational state space (vibgen_approx=None); truncated state generation is not claimed",
               "closed-form overlaps are compared for levels < 20 (the library tabulates a 20x20 block of a 100-level shift operator)"]
MIN_NONTRIVIAL = {"quick": 60, "thorough": 400}
REQUIRED_CLAUSES = ["poisson", "fc==closed-form", "orthogonal-up-to-truncation", "state-count", "coupling==J*overlaps", "dipole==d*overlaps", "HR-roundtrip"]
TIMEOUT = {"quick": 900, "thorough": 3400}
EPS = numpy.finfo(float).eps


def gen_mode(rng, maxlev):
    S = 0.0 if rng.random() < 0.12 else r3(rng.uniform(0.02, 3.0))
    return {"omega": r3(rng.uniform(100.0, 1600.0)), "hr": S,
            "n0": int(rng.integers(1, maxlev + 1)), "n1": int(rng.integers(1, maxlev + 1))}


def gen_cases(tier, rng):
    cases = []
    ns = 40 if tier == "quick" else 200
    for i in range(ns):
        N = int(rng.choice([12, 20, 30, 50, 100]))
        d = 0.0 if i == 0 else r3(rng.uniform(-3.5, 3.5))
        cases.append({"cls": "shift-operator", "N": N, "d": d, "cost": (N / 50.0) ** 3 + 0.2})
    na = 60 if tier == "quick" else 400
    for i in range(na):
        nmol = int(rng.integers(1, 4))
        mult = 2 if (nmol >= 2 and rng.random() < (0.3 if tier == "thorough" else 0.2)) else 1
        maxlev = 4 if nmol <= 2 else 3
        if mult == 2:
            maxlev = 2
        mols = []
        for m in range(nmol):
            nmode = int(rng.choice([0, 1, 1, 2]))
            mols.append({"E": r3(rng.uniform(10000, 16000)), "modes": [gen_mode(rng, maxlev) for _ in range(nmode)],
                         "dip": [r3(x) for x in rng.normal(size=3)]})
        if all(len(m["modes"]) == 0 for m in mols):
            mols[0]["modes"] = [gen_mode(rng, maxlev)]
        J = numpy.zeros((nmol, nmol))
        for a in range(nmol):
            for b in range(a + 1, nmol):
                J[a, b] = J[b, a] = 0.0 if rng.random() < 0.2 else r3(rng.uniform(10, 400) * rng.choice([-1, 1]))
        # size estimate
        def nvib(state):
            n = 1
            for mi, m in enumerate(mols):
                for md in m["modes"]:
                    n *= md["n1"] if state[mi] else md["n0"]
            return n
        states = [tuple([0] * nmol)] + [tuple(1 if k == i_ else 0 for k in range(nmol)) for i_ in range(nmol)]
        if mult == 2:
            states += [tuple(1 if k in (a, b) else 0 for k in range(nmol)) for a in range(nmol) for b in range(a + 1, nmol)]
        ntot = sum(nvib(s) for s in states)
        if ntot > (160 if tier == "quick" else 260):
            continue
        cases.append({"cls": "aggregate", "mols": mols, "J": J.tolist(), "mult": mult, "ntot": ntot, "cost": 0.5 + (ntot / 40.0) ** 2,
                      "fem_full": bool(mult == 2 and len(cases) % 2 == 0)})
    # many vibrational levels / strong displacement: the overlap table is needed up to its last tabulated level
    for i in range(12 if tier == "quick" else 80):
        nmol = 1 + (i % 2)
        hi = (i % 3 == 0)
        md = {"omega": r3(rng.uniform(100.0, 1600.0)), "hr": r3(rng.uniform(3.0, 7.0)) if hi else r3(rng.uniform(0.05, 2.0)),
              "n0": int(rng.integers(2, 9)) if hi else int(rng.integers(10, 20)), "n1": int(rng.integers(6, 20)) if hi else int(rng.integers(10, 20))}
        mols = [{"E": r3(rng.uniform(10000, 16000)), "modes": [md], "dip": [r3(x) for x in rng.normal(size=3)]}]
        if nmol == 2:
            mols.append({"E": r3(rng.uniform(10000, 16000)), "modes": [], "dip": [r3(x) for x in rng.normal(size=3)]})
        Jv = r3(rng.uniform(10, 400))
        J = [[0.0, Jv], [Jv, 0.0]] if nmol == 2 else [[0.0]]
        ntot = md["n0"] + md["n1"] + (md["n0"] if nmol == 2 else 0)
        cases.append({"cls": "aggregate", "mols": mols, "J": J, "mult": 1, "ntot": ntot, "deep": True, "cost": 0.5 + (ntot / 40.0) ** 2})
    for i in range(12 if tier == "quick" else 60):
        cases.append({"cls": "mode-accessors", "hr": r3(rng.uniform(0.0, 4.0)), "omega": r3(rng.uniform(50, 2000)),
                      "unit": str(rng.choice(["1/cm", "eV", "THz", "int"])), "n": [int(x) for x in rng.integers(1, 8, size=2)], "cost": 0.2})
    # a single molecule with several modes: its own vibronic Hamiltonian treats the modes as independent oscillators
    for i in range(10 if tier == "quick" else 60):
        K = 2 + i % 3
        cases.append({"cls": "molecule-modes", "E": r3(rng.uniform(9000, 16000)),
                      "modes": [{"omega": r3(rng.uniform(80, 1500)), "hr": r3(rng.uniform(0.05, 1.5)), "n0": int(rng.integers(2, 4)), "n1": int(rng.integers(2, 4))} for _ in range(K)],
                      "cost": 1.0})
    return cases


_PRE = {}


def run_case(case, ctx):
    import quantarhei as qr
    from quantarhei.qm.oscillators.ho import operator_factory
    cls = case["cls"]

    if cls == "shift-operator":
        N, d = case["N"], case["d"]
        with ctx.lib("operator_factory.shift_operator"):
            D = numpy.array(operator_factory(N=N).shift_operator(d))
            Dm = numpy.array(operator_factory(N=N).shift_operator(-d))
        ctx.require("fc==closed-form", D.shape == (N, N), {"what": "shape", "got": list(D.shape)})
        S = d * d / 2.0
        nl = min(N, 12)
        # levels whose closed-form column weight lies inside the basis
        ok_levels = [n for n in range(nl) if fco.column_tail(n, d, N - 2) < 1e-14]
        pois = numpy.array([fco.poisson(n, S) for n in range(nl)])
        if 0 in ok_levels:
            got = numpy.abs(D[:nl, 0]) ** 2
            sel = [n for n in range(nl) if n in ok_levels]
            ctx.check("poisson", float(numpy.max(numpy.abs(got[sel] - pois[sel]))), 1e-10, {"N": N, "shift": d, "S": S})
            mean = float(numpy.sum(numpy.arange(N) * numpy.abs(D[:, 0]) ** 2))
            ctx.check("poisson", abs(mean - S), 1e-8 * max(1.0, S), {"N": N, "what": "mean == Huang-Rhys factor", "mean": mean, "S": S})
        worst = 0.0
        for m in ok_levels:
            for n in ok_levels:
                worst = max(worst, abs(D[m, n] - fco.fc(m, n, d)))
        if ok_levels:
            ctx.check("fc==closed-form", worst, 1e-10, {"N": N, "shift": d, "levels": len(ok_levels)})
        # exact orthogonality of the full matrix, truncated block within its tail
        ctx.check("orthogonal-up-to-truncation", float(numpy.max(numpy.abs(D.T @ D - numpy.eye(N)))), 1e-10, {"N": N, "shift": d, "block": "full"})
        nb = max(2, N // 3)
        B = D[:nb, :nb]
        G = B.T @ B - numpy.eye(nb)
        tails = numpy.array([max(0.0, 1.0 - float(numpy.sum(D[:nb, j] ** 2))) for j in range(nb)])
        # independent tails from the closed form where it is valid
        worst_ratio = 0.0
        for i in range(nb):
            for j in range(nb):
                if i in ok_levels and j in ok_levels:
                    ti = fco.column_tail(i, d, nb)
                    tj = fco.column_tail(j, d, nb)
                    b = 1.01 * math.sqrt(ti * tj) + 1e-12
                    worst_ratio = max(worst_ratio, abs(G[i, j]) / b)
        ctx.check("orthogonal-up-to-truncation", worst_ratio, 1.0, {"N": N, "shift": d, "block": nb})
        ctx.check("fc==closed-form", float(numpy.max(numpy.abs(Dm - D.T))), 1e-10, {"what": "D(-d) == D(d)^T", "N": N, "shift": d})
        ctx.key(("shift", N, d))
        ctx.nontrivial(abs(d) > 0.05 and len(ok_levels) >= 3)
        return

    if cls == "mode-accessors":
        with qr.energy_units(case["unit"]):
            from qrv.checks.C09 import UFAC
            mol = qr.Molecule([0.0, 12000.0 * UFAC[case["unit"]]])
            md = qr.Mode(case["omega"] * UFAC[case["unit"]])
        mol.add_Mode(md)
        md.set_nmax(0, case["n"][0])
        md.set_nmax(1, case["n"][1])
        with ctx.lib("Mode.set_HR/get_HR"):
            md.set_HR(1, case["hr"])
            back = md.get_HR(1)
            sh = md.get_shift(1)
        ctx.check("HR-roundtrip", abs(back - case["hr"]), 1e-12 * max(1.0, case["hr"]), {"hr": case["hr"], "got": back})
        ctx.check("HR-roundtrip", abs(sh * sh / 2.0 - case["hr"]), 1e-12 * max(1.0, case["hr"]), {"what": "shift^2/2 == HR", "shift": sh})
        with ctx.lib("Molecule.get_Hamiltonian"):
            dim = mol.get_Hamiltonian().dim
        ctx.require("state-count", dim == case["n"][0] + case["n"][1], {"what": "Molecule Hamiltonian dimension", "got": dim, "want": sum(case["n"])})
        ctx.key(("mode", case["hr"], case["unit"], tuple(case["n"])))
        ctx.nontrivial(case["hr"] > 0)
        return

    if cls == "molecule-modes":
        modes = case["modes"]
        K = len(modes)

        def mk(sel):
            with qr.energy_units("1/cm"):
                mo = qr.Molecule([0.0, case["E"]])
                for k in sel:
                    md_ = qr.Mode(modes[k]["omega"])
                    mo.add_Mode(md_)
                    md_.set_nmax(0, modes[k]["n0"])
                    md_.set_nmax(1, modes[k]["n1"])
                    md_.set_HR(1, modes[k]["hr"])
            return mo
        with ctx.lib("Molecule.get_Hamiltonian (several modes, and each mode alone)"):
            Hm = numpy.array(mk(range(K)).get_Hamiltonian().data, dtype=float)
            singles = [numpy.array(mk([k]).get_Hamiltonian().data, dtype=float) for k in range(K)]
            Eint = float(qr.convert(case["E"], "1/cm", "int"))
        n0 = int(numpy.prod([m["n0"] for m in modes]))
        n1 = int(numpy.prod([m["n1"] for m in modes]))
        ctx.require("state-count", Hm.shape == (n0 + n1, n0 + n1), {"what": "Molecule Hamiltonian dimension with %d modes" % K, "got": list(Hm.shape), "want": n0 + n1})
        if Hm.shape == (n0 + n1, n0 + n1):
            sc = float(numpy.max(numpy.abs(Hm)))
            ctx.check("no-other-couplings", float(numpy.max(numpy.abs(Hm[:n0, n0:]))), 1e-12 * sc, {"what": "no elements between the electronic states of a molecule without diabatic coupling", "modes": K})
            # independent modes: the spectrum of every electronic block is the set of all sums of the single-mode level energies
            def ksum(blocks):
                ev = numpy.array([0.0])
                for b in blocks:
                    ev = (ev[:, None] + numpy.linalg.eigvalsh(b)[None, :]).ravel()
                return numpy.sort(ev)
            g_ref = ksum([singles[k][:modes[k]["n0"], :modes[k]["n0"]] for k in range(K)])
            e_ref = ksum([singles[k][modes[k]["n0"]:, modes[k]["n0"]:] for k in range(K)]) - (K - 1) * Eint
            g_got = numpy.sort(numpy.linalg.eigvalsh(Hm[:n0, :n0]))
            e_got = numpy.sort(numpy.linalg.eigvalsh(Hm[n0:, n0:]))
            wmax = max(m["omega"] for m in modes) * 1.8836515673088532e-4
            ctx.check("coupling==J*overlaps", float(numpy.max(numpy.abs(g_got - g_ref))), 1e-9 * wmax * K, {"what": "ground-state vibrational levels of a molecule with several modes = sums of single-mode levels", "modes": K})
            ctx.check("coupling==J*overlaps", float(numpy.max(numpy.abs(e_got - e_ref))), 1e-9 * max(wmax, 1e-6 * Eint) * K + 1e-12 * Eint,
                      {"what": "excited-state vibronic levels of a molecule with several modes = sums of single-mode levels", "modes": K})
        ctx.key(("molecule-modes", K, tuple((m["n0"], m["n1"], m["hr"]) for m in modes)))
        ctx.nontrivial(K >= 2)
        return

    # ------------------------------------------------------------ aggregate
    mols_d = case["mols"]
    nmol = len(mols_d)
    mult = case["mult"]
    with ctx.lib("vibronic aggregate construction"):
      if _PRE.get("agg") is not None:
        # second pass: the SAME aggregate object, rebuilt after a mode parameter was changed
        agg, modes_of = _PRE.pop("agg"), _PRE.pop("modes_of")
        J = numpy.array(case["J"])
      else:
        mols = []
        modes_of = []
        with qr.energy_units("1/cm"):
              for m in mols_d:
                  mol = qr.Molecule([0.0, m["E"]])
                  mm = []
                  for md in m["modes"]:
                      mo = qr.Mode(md["omega"])
                      mol.add_Mode(mo)
                      mo.set_nmax(0, md["n0"])
                      mo.set_nmax(1, md["n1"])
                      mo.set_HR(1, md["hr"])
                      mm.append(mo)
                  mol.set_dipole(0, 1, m["dip"])
                  mols.append(mol)
                  modes_of.append(mm)
              agg = qr.Aggregate(molecules=mols)
              J = numpy.array(case["J"])
              for a in range(nmol):
                  for b in range(a + 1, nmol):
                      if J[a, b] != 0:
                          agg.set_resonance_coupling(a, b, float(J[a, b]))
        if case.get("fem_full"):
            # full Frenkel exciton model: the resonance coupling also connects the ground state with the two-exciton band
            agg.build(mult=mult, fem_full=True)
        else:
            agg.build(mult=mult)
      H = numpy.array(agg.get_Hamiltonian().data)
      DD = numpy.array(agg.get_TransitionDipoleMoment().data)
      sigs = [(tuple(int(x) for x in e), tuple(int(x) for x in v)) for (e, v) in agg.vibsigs]
      Jint = numpy.array(agg.resonance_coupling)
    # mode list in aggregate order: (molecule index, mode descriptor)
    mlist = [(mi, md) for mi, m in enumerate(mols_d) for md in m["modes"]]

    def levels(el, k):
        mi, md = mlist[k]
        return md["n1"] if el[mi] else md["n0"]

    def shift(el, k):
        mi, md = mlist[k]
        return math.sqrt(2.0 * md["hr"]) if el[mi] else 0.0

    # --- state counts
    elstates = [tuple([0] * nmol)] + [tuple(1 if k == i else 0 for k in range(nmol)) for i in range(nmol)]
    if mult == 2:
        elstates += [tuple(1 if k in (a, b) else 0 for k in range(nmol)) for a in range(nmol) for b in range(a + 1, nmol)]
    want_counts = {el: int(numpy.prod([levels(el, k) for k in range(len(mlist))])) if mlist else 1 for el in elstates}
    got_counts = {}
    for (e, v) in sigs:
        got_counts[e] = got_counts.get(e, 0) + 1
    ctx.require("state-count", got_counts == want_counts, {"got": {str(k): v for k, v in got_counts.items()}, "want": {str(k): v for k, v in want_counts.items()}})
    ctx.require("state-count", int(agg.Ntot) == sum(want_counts.values()) == H.shape[0], {"Ntot": int(agg.Ntot), "want": sum(want_counts.values())})
    for el in elstates:
        vs = sorted(v for (e, v) in sigs if e == el)
        ref = sorted(itertools.product(*[range(levels(el, k)) for k in range(len(mlist))]))
        ctx.require("state-count", vs == ref, {"electronic_state": list(el), "what": "vibrational signatures are not the full product set"})
    if ctx.violations:
        return

    def overlap(ea, va, eb, vb):
        ov = 1.0
        for k in range(len(mlist)):
            ov *= fco.fc(va[k], vb[k], shift(ea, k) - shift(eb, k))
            if ov == 0.0:
                break
        return ov

    n = len(sigs)
    worstH, worstD, worstO = 0.0, 0.0, 0.0
    wH = wD = wO = None
    nH = nD = 0
    scaleJ = float(numpy.max(numpy.abs(Jint))) if Jint.size else 0.0
    dips = numpy.array([m["dip"] for m in mols_d], dtype=float)
    scaleD = float(numpy.max(numpy.abs(dips)))
    for a in range(n):
        ea, va = sigs[a]
        for b in range(n):
            if a == b:
                continue
            eb, vb = sigs[b]
            ka, kb = sum(ea), sum(eb)
            if ea == eb:
                dv = abs(H[a, b])
                if dv > worstO:
                    worstO, wO = dv, (a, b)
                continue
            diff = [i for i in range(nmol) if ea[i] != eb[i]]
            # Hamiltonian: same band, one excitation moved
            if (ka == kb or (case.get("fem_full") and abs(ka - kb) == 2)) and len(diff) == 2:
                i, j = diff
                ref = Jint[i, j] * overlap(ea, va, eb, vb)
                dv = abs(H[a, b] - ref)
                nH += 1
                if dv > worstH:
                    worstH, wH = dv, (a, b, float(H[a, b]), float(ref))
            else:
                dv = abs(H[a, b])
                if dv > worstO:
                    worstO, wO = dv, (a, b)
            # dipole: adjacent bands, one molecule changes state
            if abs(ka - kb) == 1 and len(diff) == 1:
                ref = dips[diff[0]] * overlap(ea, va, eb, vb)
                dv = float(numpy.max(numpy.abs(DD[a, b] - ref)))
                nD += 1
                if dv > worstD:
                    worstD, wD = dv, (a, b, DD[a, b].tolist(), ref.tolist())
            else:
                dv = float(numpy.max(numpy.abs(DD[a, b])))
                if dv > worstD:
                    worstD, wD = dv, (a, b, DD[a, b].tolist(), [0, 0, 0])
    det = {"nmol": nmol, "mult": mult, "fem_full": bool(case.get("fem_full")), "Ntot": n, "modes": [[md["n0"], md["n1"], md["hr"]] for (_, md) in mlist]}
    ctx.check("coupling==J*overlaps", worstH, 1e-10 * max(scaleJ, 1e-300) + 1e-300, dict(det, worst=wH, elements=nH))
    ctx.check("no-other-couplings", worstO, 1e-12 * max(scaleJ, float(numpy.max(numpy.abs(H))), 1e-300), dict(det, worst=wO))
    ctx.check("dipole==d*overlaps", worstD, 1e-10 * scaleD, dict(det, worst=wD, elements=nD))
    ctx.event("hamiltonian_elements_compared", nH)
    ctx.event("dipole_elements_compared", nD)
    has_hr = any(md["hr"] > 0 and max(md["n0"], md["n1"]) > 1 for (_, md) in mlist)
    ctx.key(("agg", nmol, mult, tuple((mi, md["n0"], md["n1"], md["hr"]) for (mi, md) in mlist), tuple(numpy.round(J.ravel(), 2)), case.get("stage", "first build")))
    ctx.nontrivial(has_hr and (scaleJ > 0 or scaleD > 0))
    if case.get("stage") is None and mlist and not ctx.violations and case.get("ntot", 0) <= 120:
        # a Huang-Rhys factor is changed on the mode object and the same aggregate is built again: everything follows the new value
        import copy as _copy
        c2 = _copy.deepcopy(case)
        c2["stage"] = "after set_HR and rebuild"
        k = 0
        for mi, m in enumerate(c2["mols"]):
            for kk, md in enumerate(m["modes"]):
                if k == 0:
                    md["hr"] = float("%.4g" % (md["hr"] * 1.6 + 0.25))
                    with ctx.lib("Mode.set_HR on a built aggregate, then rebuild"):
                        modes_of[mi][kk].set_HR(1, md["hr"])
                        if case["mult"] == 2 and case.get("fem_full"):
                            agg.clean()
                            agg.build(mult=2, fem_full=True)
                        elif case["mult"] == 2:
                            agg.rebuild(mult=2)
                        else:
                            agg.rebuild()
                k += 1
        _PRE["agg"], _PRE["modes_of"] = agg, modes_of
        ctx.event("aggregates_rebuilt_after_a_mode_change")
        return run_case(c2, ctx)
