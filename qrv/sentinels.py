"""Always-on runtime sentinels.

LeakDetector
    sys.monitoring based bracket of every Python frame whose code lives under
    <repo>/quantarhei.  At frame entry a snapshot of the process-wide Manager
    bookkeeping is pushed, at frame exit (return, yield, unwind) it is compared.
    A difference is attributed to the innermost frame that is not allow-listed
    and whose callees were all balanced.  It only reads state; it never raises
    into library frames.

snapshot()/diff_snapshots()
    "purity" snapshots of the observable arrays of objects handed to library
    calls.
"""
import sys
import numpy

mon = getattr(sys, "monitoring", None)


class LeakDetector:

    # functions whose *contract* is to change Manager state
    ALLOW_NAME = {"set_current_units", "unset_current_units", "set_new_basis",
                  "load_units", "store_current_basis_operator",
                  "remove_current_basis_operator", "load_conf", "_read_uconf",
                  "_load_uconf"}
    ALLOW_QUAL = {"energy_units.__enter__", "energy_units.__exit__",
                  "length_units.__enter__", "length_units.__exit__",
                  "frequency_units.__enter__", "frequency_units.__exit__",
                  "eigenbasis_of.__enter__", "eigenbasis_of.__exit__",
                  "eigenbasis_of.__init__",
                  "Manager.__init__", "Singleton.__call__"}

    def __init__(self, root):
        self.root = root.rstrip("/") + "/"
        self.stack = []
        self.frames = 0
        self.codes = set()
        self.offenders = []       # dicts
        self.m = None
        self.enabled = False
        self.mismatched_pops = 0
        self.include_basis_operator = True

    # -- state ---------------------------------------------------------
    def snap(self):
        m = self.m
        # "int" and "1/fs" are two names of the same (internal) energy unit
        cu = tuple(sorted((k, "1/fs" if (v == "int" and k in ("energy", "frequency")) else v)
                          for k, v in m.current_units.items()))
        return (cu,
                tuple(m.basis_stack),
                len(m.basis_transformations),
                tuple(sorted(m.basis_registered.keys())),
                bool(m._in_eigenbasis_of_context),
                m._in_eu_count,
                bool(m._in_energy_units_context))

    FIELDS = ("current_units", "basis_stack", "n_basis_transformations",
              "basis_registered_keys", "_in_eigenbasis_of_context",
              "_in_eu_count", "_in_energy_units_context")

    def inscope(self, code):
        return code.co_filename.startswith(self.root)

    # -- callbacks -----------------------------------------------------
    def _start(self, code, off):
        if not self.inscope(code):
            return mon.DISABLE
        if self.m is None or not self.enabled:
            return
        self.stack.append([code, self.snap(), False])

    def _exit(self, code):
        if self.m is None or not self.enabled:
            return
        if not self.stack:
            return
        if self.stack[-1][0] is not code:
            # should not happen (generators are bracketed by yield/resume)
            # find the nearest matching entry and drop everything above it
            for k in range(len(self.stack) - 1, -1, -1):
                if self.stack[k][0] is code:
                    del self.stack[k + 1:]
                    self.mismatched_pops += 1
                    break
            else:
                self.mismatched_pops += 1
                return
        c, s0, childbad = self.stack.pop()
        self.frames += 1
        self.codes.add(code.co_qualname)
        s1 = self.snap()
        if s1 != s0:
            allowed = (code.co_name in self.ALLOW_NAME
                       or code.co_qualname in self.ALLOW_QUAL
                       # context managers of the Manager module change state by contract,
                       # whichever class of the hierarchy defines the method
                       or (code.co_name in ("__enter__", "__exit__")
                           and code.co_filename.endswith("core/managers.py")))
            if not allowed and not childbad:
                ch = {}
                for name, a, b in zip(self.FIELDS, s0, s1):
                    if a != b:
                        ch[name] = [repr(a), repr(b)]
                self.offenders.append({"function": code.co_qualname,
                                       "file": code.co_filename[len(self.root):],
                                       "changed": ch})
            if not allowed and self.stack:
                self.stack[-1][2] = True

    def _ret(self, code, off, val):
        if not self.inscope(code):
            return mon.DISABLE
        self._exit(code)

    def _unwind(self, code, off, exc):
        if not self.inscope(code):
            return
        self._exit(code)

    def _throw(self, code, off, exc):
        # a generator frame resumed by throw()
        if not self.inscope(code):
            return
        if self.m is None or not self.enabled:
            return
        self.stack.append([code, self.snap(), False])

    # -- control -------------------------------------------------------
    def install(self):
        if mon is None:
            return False
        self.tool = mon.DEBUGGER_ID
        try:
            mon.use_tool_id(self.tool, "qrv-leak")
        except ValueError:
            return False
        E = mon.events
        mon.register_callback(self.tool, E.PY_START, self._start)
        mon.register_callback(self.tool, E.PY_RESUME, self._start)
        mon.register_callback(self.tool, E.PY_RETURN, self._ret)
        mon.register_callback(self.tool, E.PY_YIELD, self._ret)
        mon.register_callback(self.tool, E.PY_UNWIND, self._unwind)
        mon.register_callback(self.tool, E.PY_THROW, self._throw)
        mon.set_events(self.tool, E.PY_START | E.PY_RESUME | E.PY_RETURN
                       | E.PY_YIELD | E.PY_UNWIND | E.PY_THROW)
        self.installed = True
        return True

    def attach(self, manager):
        self.m = manager
        self.enabled = True

    def pause(self):
        self.enabled = False
        self.stack.clear()

    def resume(self):
        self.stack.clear()
        self.enabled = self.m is not None

    def take_offenders(self):
        o = self.offenders
        self.offenders = []
        return o

    def summary(self):
        return {"frames_bracketed": self.frames,
                "distinct_code_objects": len(self.codes),
                "stack_left": len(self.stack),
                "mismatched_pops": self.mismatched_pops}


# ----------------------------------------------------------------------
#  purity snapshots
# ----------------------------------------------------------------------

def _arr(x):
    if x is None:
        return None
    try:
        return numpy.array(x, copy=True)
    except Exception:
        return None


def snapshot(obj):
    """Observable state of an object handed to a library call.

    Returns a flat dict name -> ndarray / scalar.  Lazily added caches are
    deliberately not part of it.
    """
    out = {}
    cn = type(obj).__name__
    out["__class__"] = cn
    d = getattr(obj, "__dict__", {})

    def put(name, val):
        if isinstance(val, (bool, int, float, complex, str)) or val is None:
            out[name] = val
        else:
            a = _arr(val)
            if a is not None and a.dtype != object:
                out[name] = a

    if isinstance(obj, numpy.ndarray):
        out["array"] = obj.copy()
        return out

    for name in ("_data", "data_", "dim", "is_basis_protected",
                 "_current_basis", "has_rwa", "rwa_indices", "rwa_energies",
                 "Nblocks", "_has_remainder_coupling", "as_operators",
                 "is_secular", "_is_initialized", "Km", "Lm", "Ld", "Kd",
                 "KK", "rates", "N", "start", "step", "length", "atype",
                 "ado", "hinds", "nm1", "np1", "Gamma", "hsize", "depth",
                 "levels", "levlengths", "Nref", "Odt", "dt",
                 "has_PDeph", "has_RelaxationTensor", "has_RWA",
                 "has_Iterm", "has_Trafo", "has_Efield", "is_in_rwa"):
        if name in d:
            put(name, d[name])
    if d.get("_has_remainder_coupling") and "JR" in d:
        put("JR", d["JR"])
    if "data" in d and not isinstance(d["data"], property):
        put("data", d["data"])
    cc = d.get("CC", None)
    if cc is not None and hasattr(cc, "__dict__"):
        for name in ("_cofts", "lambdas", "cpointer", "nof", "nob"):
            if name in cc.__dict__:
                a = _arr(cc.__dict__[name])
                if a is not None and a.dtype != object:
                    out["CC." + name] = a
    return out


def diff_snapshots(a, b, rtol=1e-10, atol_scale=1e-13):
    """list of (name, description) where snapshots differ"""
    out = []
    for k in a:
        if k not in b:
            out.append((k, "missing after"))
            continue
        x, y = a[k], b[k]
        if isinstance(x, numpy.ndarray) or isinstance(y, numpy.ndarray):
            if not (isinstance(x, numpy.ndarray) and isinstance(y, numpy.ndarray)):
                out.append((k, "type changed"))
                continue
            if x.shape != y.shape:
                out.append((k, "shape %s -> %s" % (x.shape, y.shape)))
                continue
            if x.dtype.kind in "fc" or y.dtype.kind in "fc":
                scale = float(numpy.max(numpy.abs(x))) if x.size else 0.0
                if not numpy.allclose(x, y, rtol=rtol,
                                      atol=atol_scale * max(scale, 1e-300),
                                      equal_nan=True):
                    out.append((k, "max|diff|=%.3g at scale %.3g"
                                % (float(numpy.max(numpy.abs(x - y))), scale)))
            else:
                if not numpy.array_equal(x, y):
                    out.append((k, "values changed"))
        else:
            if x != y:
                out.append((k, "%r -> %r" % (x, y)))
    for k in b:
        if k not in a and k in ("JR",):
            pass
    return out
