"""Parent process of a check: generates cases, shards them over worker
processes that run the real code under monitors, folds the verdicts, writes
the evidence file and prints VIOLATION / KNOWN-FINDING lines.

exit 0  property held on everything explored (listed known findings allowed)
exit 1  at least one violation that known_findings.json does not list
exit 2  inconclusive (deciding monitor not reached, worker died, too few
        non-trivial cases) -- never folded into "held"
"""
import sys
import os
import json
import time
import argparse
import subprocess
import tempfile
import shutil
import importlib
import fcntl

HERE = os.path.dirname(os.path.abspath(__file__))
ROOT = os.path.dirname(HERE)
sys.path.insert(0, ROOT)

import numpy  # noqa: E402


def ensure_deps():
    """icontract lives in /verif/.deps (git-ignored): install from the offline
    wheelhouse when absent (fresh restore)."""
    deps = os.path.join(ROOT, ".deps")
    if os.path.isdir(os.path.join(deps, "icontract")):
        return deps
    os.makedirs(deps, exist_ok=True)
    lock = open(os.path.join(deps, ".lock"), "w")
    fcntl.flock(lock, fcntl.LOCK_EX)
    try:
        if not os.path.isdir(os.path.join(deps, "icontract")):
            subprocess.run([sys.executable, "-m", "pip", "install", "--quiet",
                            "--no-index", "--find-links", "/opt/veriftools/wheels",
                            "--target", deps, "icontract"],
                           stdout=subprocess.DEVNULL, stderr=subprocess.DEVNULL,
                           timeout=300)
    finally:
        fcntl.flock(lock, fcntl.LOCK_UN)
    return deps


def repo_head(repo):
    try:
        h = subprocess.run(["git", "-C", repo, "rev-parse", "--short", "HEAD"],
                           capture_output=True, text=True, timeout=20).stdout.strip()
        d = subprocess.run(["git", "-C", repo, "status", "--porcelain", "--untracked-files=no"],
                           capture_output=True, text=True, timeout=20).stdout.strip()
        return h + ("+dirty" if d else "")
    except Exception:
        return "unknown"


def load_known():
    p = os.path.join(ROOT, "known_findings.json")
    try:
        with open(p) as f:
            k = json.load(f)
    except FileNotFoundError:
        return {"known": [], "fixed": []}
    return k


def lpt_bins(cases, nbins):
    """greedy longest-processing-time assignment by the cases' cost hints"""
    order = sorted(range(len(cases)), key=lambda i: -float(cases[i].get("cost", 1.0)))
    bins = [[] for _ in range(nbins)]
    load = [0.0] * nbins
    for i in order:
        k = load.index(min(load))
        bins[k].append(i)
        load[k] += float(cases[i].get("cost", 1.0))
    for b in bins:
        b.sort()
    return [b for b in bins if b]


def main():
    ap = argparse.ArgumentParser()
    ap.add_argument("pid")
    ap.add_argument("--tier", default=os.environ.get("VERIF_TIER", "quick"))
    ap.add_argument("--replay", default=None)
    ap.add_argument("--jobs", type=int, default=int(os.environ.get("VERIF_JOBS", "16")))
    ap.add_argument("--seed", type=int, default=None)
    ap.add_argument("--keep", action="store_true")
    ap.add_argument("--no-evidence", action="store_true")
    args = ap.parse_args()
    pid = args.pid
    tier = args.tier if args.tier in ("quick", "thorough") else "quick"
    seed = args.seed if args.seed is not None else int(os.environ.get("VERIF_SEED", "20260927") or 0)
    repo = os.path.realpath(os.environ.get("VERIF_REPO", "/repo"))
    t_start = time.time()

    deps = ensure_deps()
    mod = importlib.import_module("qrv.checks." + pid)

    rng = numpy.random.default_rng([seed, int(pid[1:])])
    replay_mode = args.replay is not None
    if replay_mode:
        with open(args.replay) as f:
            rp = json.load(f)
        cases = rp["cases"] if "cases" in rp else [rp["case"]]
    else:
        cases = mod.gen_cases(tier, rng)
    for i, c in enumerate(cases):
        c.setdefault("id", i)

    # ------------------------------------------------------------------
    work = tempfile.mkdtemp(prefix="qrv-%s-" % pid)
    home = os.path.join(work, "home")
    os.makedirs(home)
    mplc = os.path.join(ROOT, ".cache", "mpl")
    os.makedirs(mplc, exist_ok=True)
    env = dict(os.environ)
    env.update({"HOME": home, "PYTHONHASHSEED": "0", "MPLBACKEND": "Agg",
                "MPLCONFIGDIR": mplc, "VERIF_REPO": repo, "QUANTARHEI_VERIF": "1",
                "PYTHONPATH": os.pathsep.join([repo, ROOT, deps]),
                "OMP_NUM_THREADS": "1", "OPENBLAS_NUM_THREADS": "1",
                "MKL_NUM_THREADS": "1", "PYTHONDONTWRITEBYTECODE": "1",
                "QRV_TIER": tier, "QRV_SEED": str(seed), "QRV_WORK": work})
    njobs = max(1, min(args.jobs, len(cases)))
    bins = lpt_bins(cases, njobs)
    timeout = float(getattr(mod, "TIMEOUT", {}).get(tier, 600 if tier == "quick" else 3000))
    procs = []
    for k, b in enumerate(bins):
        sf = os.path.join(work, "shard%d.json" % k)
        of = os.path.join(work, "out%d.jsonl" % k)
        with open(sf, "w") as f:
            json.dump([cases[i] for i in b], f)
        lf = open(os.path.join(work, "log%d.txt" % k), "w")
        # one private HOME per worker: Manager() creates ~/.quantarhei at
        # import and concurrent creation races
        envk = dict(env)
        envk["HOME"] = os.path.join(work, "home%d" % k)
        os.makedirs(envk["HOME"])
        p = subprocess.Popen([sys.executable, "-B", "-W", "ignore", "-m", "qrv.worker", pid, sf, of],
                             cwd=work, env=envk, stdout=lf, stderr=subprocess.STDOUT)
        procs.append((p, b, of, lf, k))

    results = {}
    summaries = []
    worker_problems = []
    deadline = time.time() + timeout
    for p, b, of, lf, k in procs:
        try:
            rc = p.wait(timeout=max(1.0, deadline - time.time()))
        except subprocess.TimeoutExpired:
            p.kill()
            p.wait()
            rc = "timeout"
        lf.close()
        got = 0
        if os.path.exists(of):
            with open(of) as f:
                for line in f:
                    try:
                        rec = json.loads(line)
                    except Exception:
                        continue
                    if "_summary" in rec:
                        summaries.append(rec["_summary"])
                    else:
                        results[rec["case"]["id"]] = rec
                        got += 1
        if rc != 0 or got < len(b):
            tail = ""
            try:
                with open(os.path.join(work, "log%d.txt" % k)) as f:
                    tail = f.read()[-1500:]
            except Exception:
                pass
            worker_problems.append({"shard": k, "rc": rc, "cases": len(b), "reported": got, "log_tail": tail})

    # ------------------------------------------------------------------
    known = load_known()
    known_mech = {(k["property"], k["mechanism"]): k for k in known.get("known", [])}

    evid_dir = os.path.join(ROOT, "evidence")
    replay_dir = os.path.join(evid_dir, "replay")
    os.makedirs(replay_dir, exist_ok=True)

    viol_lines = []
    known_hits = {}
    n_viol = 0
    inconclusive_cases = []
    classes = {}
    clause_tot = {}
    events_tot = {}
    distinct = set()
    nontrivial_cases = 0
    n_checks = 0
    for cid in sorted(results):
        r = results[cid]
        c = r["case"]
        cls = c.get("cls", "default")
        classes[cls] = classes.get(cls, 0) + 1
        n_checks += r["n_checks"]
        for cl, (n, mr) in r["clauses"].items():
            t = clause_tot.setdefault(cl, [0, 0.0])
            t[0] += n
            t[1] = max(t[1], mr)
        for e, n in r["events"].items():
            events_tot[e] = events_tot.get(e, 0) + n
        if r["nontrivial"]:
            nontrivial_cases += 1
            distinct.add(r["key"])
        for sk in r.get("subkeys", []):
            distinct.add(sk)
        if r["inconclusive"]:
            inconclusive_cases.append({"case": c, "reasons": r["inconclusive"]})
        unlisted = []
        for v in r["violations"]:
            km = known_mech.get((pid, v["mechanism"]))
            if km is not None:
                known_hits.setdefault(v["mechanism"], [0, km["what"]])[0] += 1
            else:
                unlisted.append(v)
        if unlisted:
            n_viol += 1
            rp = os.path.join(replay_dir, "%s-%d-%d.json" % (pid, seed, cid))
            if not replay_mode:
                with open(rp, "w") as f:
                    json.dump({"property": pid, "seed": seed, "tier": tier,
                               "case": c, "violations": unlisted,
                               "notes": r.get("notes", {})}, f, indent=1, default=str)
            else:
                rp = args.replay
            if len(viol_lines) < 25:
                viol_lines.append((rp, unlisted[0]))

    missing = [i for i in range(len(cases)) if cases[i]["id"] not in results]

    # sentinel / contract counters from the workers
    leak = {"frames_bracketed": 0, "distinct_code_objects": 0, "stack_left": 0, "mismatched_pops": 0}
    contracts = {}
    leak_off = []
    origin = None
    for s in summaries:
        if s.get("leak"):
            for k_ in leak:
                if k_ == "distinct_code_objects":
                    leak[k_] = max(leak[k_], s["leak"][k_])
                else:
                    leak[k_] += s["leak"][k_]
        for k_, n in (s.get("contracts") or {}).items():
            contracts[k_] = contracts.get(k_, 0) + n
        leak_off.extend(s.get("leak_offenders") or [])
        origin = s.get("origin", origin)

    # ------------------------------------------------------------------
    reasons = []
    if worker_problems:
        reasons.append("%d worker(s) died or timed out, %d case(s) undecided" % (len(worker_problems), len(missing)))
    if inconclusive_cases:
        reasons.append("%d case(s) inconclusive" % len(inconclusive_cases))
    min_nt = getattr(mod, "MIN_NONTRIVIAL", {}).get(tier, 2) if not replay_mode else 0
    if len(distinct) < min_nt:
        reasons.append("only %d distinct non-trivial cases (< %d)" % (len(distinct), min_nt))
    for name in getattr(mod, "REQUIRED_CLAUSES", []) if not replay_mode else []:
        if clause_tot.get(name, [0])[0] == 0:
            reasons.append("deciding clause %r was never evaluated" % name)
    for name in getattr(mod, "REQUIRED_CONTRACTS", []) if not replay_mode else []:
        if contracts.get(name, 0) == 0:
            reasons.append("contract %r was never evaluated" % name)

    wall = time.time() - t_start
    samples = []
    for cid in sorted(results)[:400]:
        r = results[cid]
        if r["nontrivial"] and len(samples) < 4:
            samples.append({"case": r["case"], "oracle_evaluations": r["n_checks"],
                            "clauses": {k_: {"n": v[0], "max_residual_over_bound": v[1]} for k_, v in r["clauses"].items()},
                            "notes": r.get("notes", {})})
    if not samples:
        for cid in sorted(results)[:2]:
            samples.append({"case": results[cid]["case"]})

    coverage = {
        "evaluations": len(results),
        "distinct_nontrivial": len(distinct),
        "rule": getattr(mod, "RULE", ""),
        "samples": samples,
        "nontrivial_cases": nontrivial_cases,
        "oracle_evaluations": n_checks,
        "classes": classes,
        "clauses": {k_: {"n": v[0], "max_residual_over_bound": round(v[1], 6)} for k_, v in sorted(clause_tot.items())},
        "monitor_events": {"leak_detector": leak, "contracts": contracts, "events": events_tot,
                           "sentinel_offenders_seen": len(leak_off)},
        "sentinel_offenders": leak_off[:10],
        "known_findings_hit": {k_: v[0] for k_, v in known_hits.items()},
        "inconclusive_cases": len(inconclusive_cases),
        "undecided_cases": len(missing),
        "inconclusive_reasons": reasons,
        "import_origin": origin,
        "repo_head": repo_head(repo),
        "workers": len(bins),
    }
    if getattr(mod, "EXHAUSTIVE", {}).get(tier) and not missing and not replay_mode:
        coverage["exhaustive"] = True
    if hasattr(mod, "extra_coverage"):
        try:
            coverage.update(mod.extra_coverage(tier, [results[i] for i in sorted(results)]))
        except Exception as e:
            coverage["extra_coverage_error"] = repr(e)
    evidence = {"property_id": pid, "tier": tier, "seed": seed,
                "level": getattr(mod, "LEVEL", "exploration"),
                "coverage": coverage,
                "assumptions": getattr(mod, "ASSUMPTIONS", []),
                "wall_s": round(wall, 2),
                "violations": n_viol}
    if not replay_mode and not args.no_evidence:
        with open(os.path.join(evid_dir, pid + ".json"), "w") as f:
            json.dump(evidence, f, indent=1, default=str)

    # ------------------------------------------------------------------
    for mech, (n, what) in sorted(known_hits.items()):
        print("KNOWN-FINDING: property=%s %s [%s, seen in %d clause evaluation(s)]" % (pid, what, mech, n))
    for rp, v in viol_lines:
        print("VIOLATION property=%s replay=%s" % (pid, rp))
        print("   clause=%s mechanism=%s residual=%s bound=%s detail=%s" % (
            v["clause"], v["mechanism"], v.get("residual"), v.get("bound"),
            json.dumps(v.get("detail"), default=str)[:400]))
    print("%s tier=%s seed=%d cases=%d distinct_nontrivial=%d oracle_evaluations=%d violating_cases=%d known_hits=%d frames_monitored=%d wall=%.1fs"
          % (pid, tier, seed, len(results), len(distinct), n_checks, n_viol,
             sum(v[0] for v in known_hits.values()), leak["frames_bracketed"], wall))
    if replay_mode:
        for cid in sorted(results):
            print(json.dumps(results[cid], indent=1, default=str)[:6000])

    if not args.keep:
        shutil.rmtree(work, ignore_errors=True)
    else:
        print("work dir kept:", work)

    if reasons:
        for r in reasons:
            print("INCONCLUSIVE property=%s reason=%s" % (pid, r))
        for wp in worker_problems[:3]:
            print("  worker shard=%s rc=%s reported=%s/%s\n%s" % (wp["shard"], wp["rc"], wp["reported"], wp["cases"], wp["log_tail"]))
        for ic in inconclusive_cases[:3]:
            print("  case:", json.dumps(ic, default=str)[:1500])
    if n_viol:
        sys.exit(1)
    if reasons:
        sys.exit(2)
    sys.exit(0)


if __name__ == "__main__":
    main()
