"""Worker process: runs a shard of cases of one property against the real code.

usage: python -B -m qrv.worker <PID> <shard.json> <out.jsonl>

One JSON line per finished case is appended (and flushed) to <out.jsonl>, then
a final {"_summary": ...} line.  The parent treats cases without a line as
not decided (inconclusive).
"""
import sys
import os
import json
import time
import traceback
import contextlib
import importlib
import math

import numpy


class LibRaised(Exception):
    """library code raised while the harness expected a result"""


def _jsonable(x, depth=0):
    if depth > 6:
        return repr(x)[:80]
    if isinstance(x, (str, bool)) or x is None:
        return x
    if isinstance(x, (int, numpy.integer)):
        return int(x)
    if isinstance(x, (float, numpy.floating)):
        x = float(x)
        if math.isnan(x) or math.isinf(x):
            return repr(x)
        return x
    if isinstance(x, (complex, numpy.complexfloating)):
        return [float(x.real), float(x.imag)]
    if isinstance(x, numpy.ndarray):
        if x.size > 64:
            return {"ndarray": list(x.shape), "max_abs": _jsonable(numpy.max(numpy.abs(x)) if x.size else 0.0)}
        return _jsonable(x.tolist(), depth + 1)
    if isinstance(x, dict):
        return {str(k): _jsonable(v, depth + 1) for k, v in x.items()}
    if isinstance(x, (list, tuple, set)):
        return [_jsonable(v, depth + 1) for v in x]
    return repr(x)[:200]


class Ctx:
    """what a check module sees while one case runs"""

    def __init__(self, pid, leak, repo):
        self.pid = pid
        self.leak = leak
        self.repo = repo
        self.contract_counts = {}
        self.reset(None)

    def reset(self, case):
        self.case = case
        self.violations = []
        self.inconcl = []
        self.n_checks = 0
        self.clauses = {}        # clause -> [n, max ratio]
        self._nontrivial = False
        self._key = None
        self._subkeys = set()
        self.events = {}
        self.notes = {}
        self.known_hits = []

    # ---- recording ---------------------------------------------------
    def key(self, k):
        self._key = str(k)

    def nontrivial(self, flag=True):
        self._nontrivial = bool(flag)

    def sub(self, key, nontrivial=True):
        """a case that enumerates many sub-cases registers each distinct,
        non-trivial one here"""
        if nontrivial:
            self._subkeys.add(str(key))

    def event(self, name, n=1):
        self.events[name] = self.events.get(name, 0) + n

    def note(self, k, v):
        self.notes[k] = _jsonable(v)

    def inconclusive(self, reason):
        self.inconcl.append(str(reason)[:300])

    def violation(self, clause, detail=None, mechanism=None, residual=None, bound=None):
        v = {"clause": clause, "mechanism": mechanism or clause,
             "detail": _jsonable(detail)}
        if residual is not None:
            v["residual"] = _jsonable(residual)
        if bound is not None:
            v["bound"] = _jsonable(bound)
        if len(self.violations) < 40:
            self.violations.append(v)
        return False

    def check(self, clause, residual, bound, detail=None, mechanism=None):
        """oracle evaluation: held iff residual <= bound (both finite)"""
        self.n_checks += 1
        try:
            r = float(residual)
            b = float(bound)
        except Exception:
            r = float("nan")
            b = float("nan")
        c = self.clauses.setdefault(clause, [0, 0.0])
        c[0] += 1
        ok = (r <= b) and math.isfinite(r) and math.isfinite(b)
        ratio = (r / b) if (b > 0 and math.isfinite(r)) else (0.0 if r == 0 else float("inf"))
        if math.isfinite(ratio):
            c[1] = max(c[1], ratio)
        if not ok:
            self.violation(clause, detail, mechanism, residual=r, bound=b)
        return ok

    def require(self, clause, cond, detail=None, mechanism=None):
        self.n_checks += 1
        c = self.clauses.setdefault(clause, [0, 0.0])
        c[0] += 1
        if not cond:
            self.violation(clause, detail, mechanism)
        return bool(cond)

    @contextlib.contextmanager
    def lib(self, what, mechanism=None, expect=None):
        """run library code; an exception there is a violation of `what`

        expect: exception class(es) that are an *admissible* outcome; they
        propagate unchanged.
        """
        try:
            yield
        except LibRaised:
            raise
        except Exception as e:
            if expect is not None and isinstance(e, expect):
                raise
            tb = traceback.extract_tb(e.__traceback__)
            where = ""
            inrepo = False
            for fr in tb:
                if fr.filename.startswith(self.repo):
                    inrepo = True
                    where = "%s:%d %s" % (fr.filename[len(self.repo):], fr.lineno, fr.name)
            if not inrepo and len(tb) > 1:
                # raised by harness/oracle code inside the with block
                raise
            self.n_checks += 1
            self.violation("exception:" + what,
                           {"exc": repr(e)[:300], "where": where},
                           mechanism=mechanism or ("exception:" + what))
            raise LibRaised(what) from e

    def contract_hit(self, name, n=1):
        self.contract_counts[name] = self.contract_counts.get(name, 0) + n

    def result(self, wall):
        return {"case": self.case,
                "key": self._key if self._key is not None else json.dumps(self.case, sort_keys=True, default=str)[:400],
                "nontrivial": self._nontrivial,
                "subkeys": sorted(self._subkeys),
                "violations": self.violations,
                "inconclusive": self.inconcl,
                "n_checks": self.n_checks,
                "clauses": self.clauses,
                "events": self.events,
                "notes": self.notes,
                "wall": round(wall, 3)}


def main(argv):
    pid, shard_file, out_file = argv[1:4]
    repo = os.environ.get("VERIF_REPO", "/repo").rstrip("/")
    use_leak = os.environ.get("QRV_LEAK", "1") == "1"

    from qrv import sentinels
    leak = sentinels.LeakDetector(os.path.join(repo, "quantarhei"))
    leak_on = leak.install() if use_leak else False

    import warnings
    warnings.filterwarnings("ignore")

    import quantarhei
    origin = os.path.dirname(os.path.abspath(quantarhei.__file__))
    if origin != os.path.join(os.path.realpath(repo), "quantarhei") and \
       origin != os.path.join(repo, "quantarhei"):
        print("worker: quantarhei imported from %s, expected %s/quantarhei" % (origin, repo), file=sys.stderr)
        sys.exit(3)
    from quantarhei import Manager
    if leak_on:
        leak.attach(Manager())

    mod = importlib.import_module("qrv.checks." + pid)
    ctx = Ctx(pid, leak, repo + "/")
    with open(shard_file) as f:
        cases = json.load(f)

    out = open(out_file, "a")
    if hasattr(mod, "setup_worker"):
        mod.setup_worker(ctx)
    for case in cases:
        ctx.reset(case)
        t0 = time.time()
        try:
            mod.run_case(case, ctx)
        except LibRaised:
            pass
        except Exception as e:
            ctx.inconclusive("harness exception: " + repr(e)[:200] + " | "
                             + traceback.format_exc()[-900:])
        # make sure no Manager state from a broken case leaks into the next
        try:
            if hasattr(mod, "after_case"):
                mod.after_case(case, ctx)
            _reset_manager(Manager(), ctx, leak)
        except Exception as e:
            ctx.inconclusive("reset failed: " + repr(e)[:200])
        rec = ctx.result(time.time() - t0)
        out.write(json.dumps(rec, default=str) + "\n")
        out.flush()
    summ = {"_summary": {"leak": leak.summary() if leak_on else None,
                         "leak_offenders": leak.offenders[:50] if leak_on else [],
                         "contracts": ctx.contract_counts,
                         "origin": origin,
                         "ncases": len(cases)}}
    out.write(json.dumps(summ, default=str) + "\n")
    out.close()


def _reset_manager(m, ctx, leak):
    """restore pristine bookkeeping between cases (a broken case must not
    poison the next one); anything that had to be repaired is an event"""
    dirty = []
    if list(m.basis_stack) != [0]:
        dirty.append("basis_stack=%r" % (m.basis_stack,))
        m.basis_stack = [0]
    if len(m.basis_transformations) != 1:
        dirty.append("basis_transformations")
        m.basis_transformations = [1]
    if m.basis_registered:
        dirty.append("basis_registered")
        m.basis_registered = {}
    if m._in_eigenbasis_of_context:
        dirty.append("_in_eigenbasis_of_context")
        m._in_eigenbasis_of_context = False
    cu = dict(m.current_units)
    if cu.get("energy") not in ("1/fs", "int") or cu.get("frequency") not in ("1/fs", "int") or cu.get("length") != "A":
        dirty.append("current_units=%r" % (cu,))
    if cu.get("energy") != "1/fs" or cu.get("frequency") != "1/fs" or cu.get("length") != "A":
        m.current_units["energy"] = "1/fs"
        m.current_units["frequency"] = "1/fs"
        m.current_units["length"] = "A"
    if m._in_eu_count != 0 or m._in_energy_units_context:
        dirty.append("_in_eu_count")
        m._in_eu_count = 0
        m._in_energy_units_context = False
    m.current_basis_operator = None
    if dirty:
        ctx.event("manager_state_repaired_after_case")
        ctx.notes["manager_dirty_after_case"] = dirty
    if leak is not None:
        leak.stack.clear()


if __name__ == "__main__":
    main(sys.argv)
