"""Builders of real quantarhei objects from JSON case descriptors and the
seeded generators of those descriptors (generators need numpy only)."""
import numpy


# ----------------------------------------------------------------------
# generators (parent side, no quantarhei import)
# ----------------------------------------------------------------------

def r3(x):
    """round to 4 significant digits (descriptors stay short and exact)"""
    return float("%.4g" % float(x))


def gen_bath(rng, T=None, kinds=("OverdampedBrownian", "OverdampedBrownian-HighTemperature"),
             lam=(5.0, 150.0), tau=(20.0, 200.0)):
    k = str(rng.choice(list(kinds)))
    return {"ftype": k,
            "reorg": r3(rng.uniform(*lam)),
            "cortime": r3(rng.uniform(*tau)),
            "T": T if T is not None else r3(rng.uniform(77.0, 400.0))}


def gen_system(rng, N=None, nmin=2, nmax=4, T=None, Nt=300, dt=1.0,
               shared_bath=None, zero_coupling=False, degenerate=False,
               jmax=300.0, spread=600.0, two_kinds=False, dipoles=True,
               lam=(5.0, 150.0), tau=(20.0, 200.0)):
    if N is None:
        N = int(rng.integers(nmin, nmax + 1))
    if T is None:
        T = r3(rng.choice([77.0, 150.0, 300.0, 300.0, 400.0]) if rng.random() < 0.5 else rng.uniform(60.0, 400.0))
    E0 = rng.uniform(10000.0, 16000.0)
    E = [r3(E0 + rng.uniform(0, spread)) for _ in range(N)]
    if degenerate and N >= 2:
        E[1] = E[0]
    J = numpy.zeros((N, N))
    for i in range(N):
        for j in range(i + 1, N):
            if zero_coupling:
                v = 0.0
            else:
                v = r3(rng.uniform(5.0, jmax) * rng.choice([-1.0, 1.0]))
                if rng.random() < 0.15:
                    v = 0.0
            J[i, j] = J[j, i] = v
    if shared_bath is None:
        shared_bath = bool(rng.random() < 0.5)
    if shared_bath:
        b = gen_bath(rng, T, lam=lam, tau=tau)
        baths = [b] * N
    else:
        baths = [gen_bath(rng, T, lam=lam, tau=tau) for _ in range(N)]
    d = {"N": N, "E": E, "J": J.tolist(), "T": T, "Nt": int(Nt), "dt": float(dt),
         "bath": baths, "shared_bath": shared_bath}
    if dipoles:
        d["dip"] = [[r3(x) for x in rng.normal(size=3)] for _ in range(N)]
    return d


# ----------------------------------------------------------------------
# builders (worker side)
# ----------------------------------------------------------------------

def timeaxis(desc):
    import quantarhei as qr
    return qr.TimeAxis(0.0, int(desc["Nt"]), float(desc["dt"]))


def make_cf(time, b, cls="CorrelationFunction"):
    import quantarhei as qr
    if b["ftype"] == "Value-defined-real":
        # a classical (real valued) correlation function given by its values: C(t) = 2 lambda kT exp(-t/tau)
        from qrv.oracles import units as _U
        lam = b["reorg"] * _U.E_FAC["1/cm"]
        vals = (2.0 * lam * _U.KB_INT_PER_K * b["T"]) * numpy.exp(-numpy.asarray(time.data) / b["cortime"])
        with qr.energy_units("1/cm"):
            return qr.CorrelationFunction(time, {"ftype": "Value-defined", "reorg": b["reorg"], "T": b["T"]}, values=vals.astype(complex) if b.get("complex_dtype") else vals)
    prm = {"ftype": b["ftype"], "reorg": b["reorg"], "T": b["T"]}
    if "cortime" in b:
        prm["cortime"] = b["cortime"]
    if "freq" in b:
        prm["freq"] = b["freq"]
    if "gamma" in b:
        prm["gamma"] = b["gamma"]
    with qr.energy_units("1/cm"):
        if cls == "CorrelationFunction":
            return qr.CorrelationFunction(time, prm)
        return qr.SpectralDensity(time, prm)


def make_aggregate(desc, mult=1, build=True, with_bath=True, time=None):
    """returns (agg, time, [cf per site])"""
    import quantarhei as qr
    N = desc["N"]
    if time is None:
        time = timeaxis(desc)
    cfs = []
    with qr.energy_units("1/cm"):
        mols = [qr.Molecule([0.0, float(desc["E"][i])]) for i in range(N)]
    if with_bath and desc.get("bath"):
        if desc.get("shared_bath"):
            cf = make_cf(time, desc["bath"][0])
            cfs = [cf] * N
        else:
            cfs = [make_cf(time, desc["bath"][i]) for i in range(N)]
        for m, cf in zip(mols, cfs):
            m.set_transition_environment((0, 1), cf)
    if "dip" in desc:
        for m, d in zip(mols, desc["dip"]):
            m.set_dipole(0, 1, [float(x) for x in d])
    agg = qr.Aggregate(molecules=mols)
    J = numpy.array(desc["J"], dtype=float)
    with qr.energy_units("1/cm"):
        for i in range(N):
            for j in range(i + 1, N):
                if J[i, j] != 0.0:
                    agg.set_resonance_coupling(i, j, float(J[i, j]))
    if build:
        agg.build(mult=mult)
    return agg, time, cfs


def random_state(rng, n, kind="mixed", block=None):
    """Hermitian unit-trace positive matrix (numpy)"""
    if kind == "pure":
        v = rng.normal(size=n) + 1j * rng.normal(size=n)
        v /= numpy.linalg.norm(v)
        return numpy.outer(v, v.conj())
    a = rng.normal(size=(n, n)) + 1j * rng.normal(size=(n, n))
    r = a @ a.conj().T
    r /= numpy.trace(r).real
    if kind == "populations":
        r = numpy.diag(numpy.diag(r)).astype(complex)
    return r
