"""Independent Liouville-space reference: generator as an N^2 x N^2 matrix acting
on row-major vec(rho), exact exponential by scipy.linalg.expm."""
import math
import numpy
import scipy.linalg as sl


def vec(rho):
    return numpy.asarray(rho, dtype=complex).reshape(-1)


def unvec(v, n):
    return numpy.asarray(v).reshape(n, n)


def hamiltonian_part(H):
    """-i [H, .]  ->  -i (H (x) 1 - 1 (x) H^T)"""
    H = numpy.asarray(H, dtype=complex)
    n = H.shape[0]
    I = numpy.eye(n)
    return -1j * (numpy.kron(H, I) - numpy.kron(I, H.T))


def tensor_part(R):
    """(R rho)_ab = sum_cd R[a,b,c,d] rho_cd"""
    R = numpy.asarray(R, dtype=complex)
    n = R.shape[0]
    return R.reshape(n * n, n * n)


def lindblad_part(Ks, rates):
    """sum_m g_m (K rho K^+ - 1/2 {K^+ K, rho})"""
    n = numpy.asarray(Ks[0]).shape[0]
    I = numpy.eye(n)
    L = numpy.zeros((n * n, n * n), dtype=complex)
    for K, g in zip(Ks, rates):
        K = numpy.asarray(K, dtype=complex)
        KdK = K.conj().T @ K
        L += g * (numpy.kron(K, K.conj()) - 0.5 * numpy.kron(KdK, I) - 0.5 * numpy.kron(I, KdK.T))
    return L


def dephasing_part(G):
    """Lorentzian pure dephasing: d rho_ab/dt = -G[a,b] rho_ab"""
    G = numpy.asarray(G, dtype=float)
    return -numpy.diag(G.reshape(-1)).astype(complex)


def propagate_exact(L, rho0, times):
    n = numpy.asarray(rho0).shape[0]
    v0 = vec(rho0)
    out = numpy.zeros((len(times), n, n), dtype=complex)
    # equidistant grid: one exponential, repeated application
    if len(times) > 1:
        dt = times[1] - times[0]
        U = sl.expm(L * dt)
        v = sl.expm(L * (times[0])) @ v0 if times[0] != 0 else v0
        for i in range(len(times)):
            out[i] = unvec(v, n)
            v = U @ v
    else:
        out[0] = unvec(sl.expm(L * times[0]) @ v0, n)
    return out


def power_bound(L, dt_store, nsteps):
    """M = max_k || expm(L dt)^k ||_2 for k <= nsteps (>= 1)"""
    U = sl.expm(L * dt_store)
    M = 1.0
    P = numpy.eye(U.shape[0], dtype=complex)
    for k in range(min(nsteps, 400)):
        P = U @ P
        M = max(M, float(numpy.linalg.norm(P, 2)))
    return M


def taylor_bounds(L, dt_fine, order, nref, nstore, rho0_norm):
    """a-priori bound on ||rho_taylor(t_n) - rho_exact(t_n)||_F for n = 0..nstore-1
    one fine step: ||T_L - e^{x}|| <= x^(L+1)/(L+1)! e^x, x = ||L||_2 dt_fine
    m steps:       m * M^2 * loc * (1 + loc)^m * ||rho0||
    """
    x = float(numpy.linalg.norm(L, 2)) * dt_fine
    loc = x ** (order + 1) / math.factorial(order + 1) * math.exp(x)
    M = power_bound(L, dt_fine * nref, nstore)
    out = numpy.zeros(nstore)
    for n in range(nstore):
        m = n * nref
        out[n] = m * M * M * loc * (1.0 + loc) ** m * rho0_norm
    return out, x, M
