"""Unit conversion factors recomputed from scipy.constants (CODATA 2018/2022),
independent of quantarhei/core/units.py.  Internal energy unit: rad/fs
(energy / hbar), internal length unit: Angstrom."""
import math
import scipy.constants as c

HARTREE = c.physical_constants["Hartree energy"][0]
BOHR = c.physical_constants["Bohr radius"][0]

# value_in_unit * E_FAC[unit] = internal (rad/fs)
E_FAC = {
    "1/fs": 1.0,
    "int": 1.0,
    "1/cm": 2.0 * math.pi * c.c * 100.0 * 1e-15,
    "THz": 2.0 * math.pi * 1e-3,
    "eV": c.e / c.hbar * 1e-15,
    "meV": c.e / c.hbar * 1e-18,
    "J": 1e-15 / c.hbar,
    "SI": 1e-15 / c.hbar,
    "Ha": HARTREE / c.hbar * 1e-15,
    "a.u.": HARTREE / c.hbar * 1e-15,
}
NM_CONST = 2.0 * math.pi * c.c * 1e-6      # internal = NM_CONST / value_nm


def e_to_int(x, u):
    if u == "nm":
        return NM_CONST / x if x != 0 else 0.0
    return x * E_FAC[u]


def e_from_int(e, u):
    if u == "nm":
        return NM_CONST / e if e != 0 else 0.0
    return e / E_FAC[u]


def e_convert(x, u1, u2):
    return e_from_int(e_to_int(x, u1), u2)


# value_in_unit * L_FAC[unit] = internal (Angstrom)
L_FAC = {"int": 1.0, "A": 1.0, "nm": 10.0, "Bohr": BOHR * 1e10, "a.u.": BOHR * 1e10, "m": 1e10, "SI": 1e10}

DEBYE = 1e-21 / c.c          # C m
KB_INT_PER_K = c.k / c.hbar * 1e-15     # rad/fs per Kelvin


def dipole_dipole_int(d1, d2, r1, r2, epsr):
    """point-dipole coupling (Debye, Angstrom) -> internal energy units"""
    import numpy
    d1, d2, r1, r2 = (numpy.asarray(x, dtype=float) for x in (d1, d2, r1, r2))
    R = r1 - r2
    Rn = float(numpy.linalg.norm(R))
    n = R / Rn
    V = (numpy.dot(d1, d2) - 3.0 * numpy.dot(d1, n) * numpy.dot(d2, n)) * DEBYE * DEBYE \
        / (4.0 * math.pi * c.epsilon_0 * epsr * (Rn * 1e-10) ** 3)
    return V / c.hbar * 1e-15
