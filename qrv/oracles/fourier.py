"""Direct (O(N^2)) Fourier sums; independent of numpy.fft."""
import numpy


def direct_ft(t, f, w, dt):
    """F(w_k) = sum_n f(t_n) exp(+i w_k t_n) dt"""
    t = numpy.asarray(t, dtype=float)
    w = numpy.asarray(w, dtype=float)
    f = numpy.asarray(f)
    out = numpy.empty(len(w), dtype=complex)
    # chunked to keep memory small
    for a in range(0, len(w), 256):
        ph = numpy.exp(1j * numpy.outer(w[a:a + 256], t))
        out[a:a + 256] = ph @ f * dt
    return out


def direct_ift(w, F, t, dw):
    """f(t_n) = sum_k F(w_k) exp(-i w_k t_n) dw / 2 pi"""
    t = numpy.asarray(t, dtype=float)
    w = numpy.asarray(w, dtype=float)
    F = numpy.asarray(F)
    out = numpy.empty(len(t), dtype=complex)
    for a in range(0, len(t), 256):
        ph = numpy.exp(-1j * numpy.outer(t[a:a + 256], w))
        out[a:a + 256] = ph @ F * dw / (2.0 * numpy.pi)
    return out


def hermitian_extension(t, f):
    """(t, f) on t_0=0..t_{N-1}  ->  values on -(N-1)..(N-1) with f(-t)=conj f(t)"""
    t = numpy.asarray(t, dtype=float)
    f = numpy.asarray(f)
    tt = numpy.concatenate([-t[:0:-1], t])
    ff = numpy.concatenate([numpy.conj(f[:0:-1]), f])
    return tt, ff
