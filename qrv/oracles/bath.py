"""Analytic bath functions of the overdamped Brownian oscillator.

All energies in rad/fs, times in fs.  kT = kB*T.
  J(w)            = 2 lam gamma w / (w^2 + gamma^2)            (odd spectral density)
  C(w)            = (1 + coth(w / 2kT)) J(w)                   (full FT of C(t))
  C(t)            = (lam/tau) (cot(1/(2 kT tau)) - i) e^{-t/tau}
                    + (4 lam kT / tau) sum_n nu_n e^{-nu_n t} / (nu_n^2 - 1/tau^2),  nu_n = 2 pi kT n
  high temperature: C(t) = (2 lam kT - i lam/tau) e^{-t/tau}
"""
import math
import numpy


def J(w, lam, tau):
    g = 1.0 / tau
    return 2.0 * lam * g * w / (w * w + g * g)


def Cw(w, lam, tau, kT):
    return (1.0 + 1.0 / math.tanh(w / (2.0 * kT))) * J(w, lam, tau)


def terms(lam, tau, kT, kind, nmats=10):
    """list of (amplitude, decay rate) with C(t) = sum a_k exp(-nu_k t)"""
    g = 1.0 / tau
    if kind == "OverdampedBrownian-HighTemperature":
        return [(2.0 * lam * kT - 1j * lam * g, g)]
    out = [((lam * g) * (1.0 / math.tan(g / (2.0 * kT))) - 1j * lam * g, g)]
    for n in range(1, nmats + 1):
        nu = 2.0 * math.pi * kT * n
        out.append(((4.0 * lam * kT * g) * nu / (nu * nu - g * g), nu))
    return out


def Ct(t, lam, tau, kT, kind, nmats=10):
    t = numpy.asarray(t, dtype=float)
    c = numpy.zeros(t.shape, dtype=complex)
    for a, nu in terms(lam, tau, kT, kind, nmats):
        c = c + a * numpy.exp(-nu * t)
    return c


def half_ft(w, lam, tau, kT, kind, tmax=None, nmats=10):
    """int_0^tmax C(t) exp(i w t) dt  (tmax=None: infinity), for the truncated Matsubara sum"""
    s = 0.0 + 0.0j
    for a, nu in terms(lam, tau, kT, kind, nmats):
        z = nu - 1j * w
        if tmax is None:
            s += a / z
        else:
            s += a * (1.0 - numpy.exp(-z * tmax)) / z
    return s


def g_of_t(t, lam, tau, kT, kind, nmats=10):
    """line-shape function g(t) = int_0^t dt' int_0^t' dt'' C(t'')"""
    t = numpy.asarray(t, dtype=float)
    g = numpy.zeros(t.shape, dtype=complex)
    for a, nu in terms(lam, tau, kT, kind, nmats):
        g = g + a * (numpy.exp(-nu * t) + nu * t - 1.0) / (nu * nu)
    return g


def h_of_t(t, lam, tau, kT, kind, nmats=10):
    """h(t) = dg/dt = int_0^t C"""
    t = numpy.asarray(t, dtype=float)
    h = numpy.zeros(t.shape, dtype=complex)
    for a, nu in terms(lam, tau, kT, kind, nmats):
        h = h + a * (1.0 - numpy.exp(-nu * t)) / nu
    return h


def simpson_half_ft(t, c, w):
    """composite Simpson (odd point count; trapezoid for a trailing interval) of sampled c(t) exp(i w t)"""
    from scipy.integrate import simpson
    t = numpy.asarray(t, dtype=float)
    f = numpy.asarray(c) * numpy.exp(1j * w * t)
    return simpson(f.real, x=t) + 1j * simpson(f.imag, x=t)
