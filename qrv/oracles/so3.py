"""Exact isotropic (orientational) averages by the icosahedral rotation group.

The 60 proper rotations of the icosahedron form a rotation 5-design: the group
average of any polynomial of degree <= 5 in the entries of the rotation matrix
equals its average over SO(3) (the group has no invariant in the irreducible
representations l = 1..5).  The rank-4 orientational average is of degree 4.
"""
import numpy

_GROUP = None


def _rot(axis, angle):
    a = numpy.asarray(axis, dtype=float)
    a = a / numpy.linalg.norm(a)
    K = numpy.array([[0, -a[2], a[1]], [a[2], 0, -a[0]], [-a[1], a[0], 0]])
    return numpy.eye(3) + numpy.sin(angle) * K + (1 - numpy.cos(angle)) * (K @ K)


def icosahedral_group():
    global _GROUP
    if _GROUP is not None:
        return _GROUP
    phi = (1 + 5 ** 0.5) / 2
    gens = [_rot([0, 1, phi], 2 * numpy.pi / 5), _rot([1, 1, 1], 2 * numpy.pi / 3)]
    G = [numpy.eye(3)]
    changed = True
    while changed:
        changed = False
        for g in list(G):
            for h in gens:
                n = g @ h
                if not any(numpy.allclose(n, x, atol=1e-9) for x in G):
                    G.append(n)
                    changed = True
        if len(G) > 60:
            raise RuntimeError("generators do not close to the icosahedral group")
    if len(G) != 60:
        raise RuntimeError("group has %d elements" % len(G))
    # re-orthogonalise against accumulated rounding
    out = []
    for g in G:
        u, s, vt = numpy.linalg.svd(g)
        out.append(u @ vt)
    _GROUP = numpy.array(out)
    return _GROUP


def average4(e, d):
    """< prod_i (e_i . R d_i) >_R for four lab vectors e[i] and four molecular vectors d[i]"""
    G = icosahedral_group()
    e = numpy.asarray(e, dtype=float)
    d = numpy.asarray(d, dtype=float)
    Rd = numpy.einsum("gab,ib->gia", G, d)          # (60,4,3)
    proj = numpy.einsum("ia,gia->gi", e, Rd)          # (60,4)
    return float(numpy.mean(numpy.prod(proj, axis=1)))
