"""Displaced-oscillator overlaps in closed form (no matrix exponentials).

<m| D(beta) |n>,  D(beta) = exp(beta (a^+ - a)),  beta real:

  m >= n:  sqrt(n!/m!) beta^(m-n) exp(-beta^2/2) L_n^{(m-n)}(beta^2)
  m <  n:  (-1)^(n-m) <n|D(beta)|m>

The library's shift operator for a coordinate shift `d` is D(d/sqrt(2)).
"""
import math
from scipy.special import eval_genlaguerre, gammaln


def disp(m, n, beta):
    if m < n:
        return (-1.0) ** (n - m) * disp(n, m, beta)
    if beta == 0.0:
        return 1.0 if m == n else 0.0
    lg = 0.5 * (gammaln(n + 1) - gammaln(m + 1))
    return math.exp(lg - beta * beta / 2.0) * beta ** (m - n) * float(eval_genlaguerre(n, m - n, beta * beta))


def fc(m, n, shift):
    """<m| shift_operator(shift) |n>"""
    return disp(m, n, shift / math.sqrt(2.0))


def poisson(n, S):
    return math.exp(-S + n * math.log(S) - math.lgamma(n + 1)) if S > 0 else (1.0 if n == 0 else 0.0)


def column_tail(n, shift, N, extra=160):
    """sum_{k>=N} |<k|D|n>|^2 : weight of column n outside the first N levels
    (summed directly, no cancellation)"""
    s = 0.0
    for k in range(N, N + extra):
        t = fc(k, n, shift) ** 2
        s += t
        if k > N + 8 and t < 1e-40:
            break
    return s
