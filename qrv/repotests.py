"""The repository's own unit tests as a workload for the always-on monitors.

The tests assert what they assert; here they only DRIVE library code (several hundred distinct functions) while the
frame-level leak detector watches the Manager bookkeeping.  A test that fails is not a verdict of ours (the pinned suite
decides that); a library frame that returns with different units / basis bookkeeping than it was entered with is.
Test names come from qrv/stable_tests.json (the pinned suite's stable tests that run in-process)."""
import contextlib
import importlib
import io
import json
import os
import sys
import unittest

HERE = os.path.dirname(os.path.abspath(__file__))
# seconds under the monitor on an idle core; used for sharding and for choosing the quick subset
COST = {"tests.unit.builders.test_aggregates": 130, "tests.unit.qm.liouvillespace.test_evolutionsuperoperator": 25,
        "tests.unit.builders.test_molecules": 9, "tests.unit.spectroscopy.test_labsetup": 9, "tests.unit.qm.liouvillespace.test_lindblad": 6,
        "tests.unit.spectroscopy.abs_test": 5, "tests.unit.qm.corfunctions.spectraldensities_test": 4,
        "tests.unit.qm.propagators.test_rdm_propagator_usage": 3, "tests.unit.qm.propagators.rdmpropagator_test": 3}


def modules():
    names = json.load(open(os.path.join(HERE, "stable_tests.json")))
    mods = {}
    for t in names:
        cls, name = t.split("::")
        mods.setdefault(cls.rsplit(".", 1)[0], []).append(t)
    return mods


def gen_cases(tier):
    out = []
    for m, tests in sorted(modules().items()):
        c = COST.get(m, 1)
        if tier == "quick" and c > 10:
            continue
        out.append({"cls": "repo-tests", "module": m, "tests": tests, "cost": 1 + c})
    return out


def _walk(s):
    for t in s:
        if isinstance(t, unittest.TestSuite):
            yield from _walk(t)
        else:
            yield t


def run_module(case, ctx, fields, clause, mech_prefix):
    """runs the listed tests of one module; `fields` = the LeakDetector fields this property judges"""
    work = os.path.join(os.environ.get("HOME", "/tmp"), "repotests")
    os.makedirs(work, exist_ok=True)
    old = os.getcwd()
    root = ctx.repo.rstrip("/")
    if root not in sys.path:
        sys.path.insert(0, root)
    os.chdir(work)
    wanted = set(case["tests"])
    if not os.path.isdir(os.path.join(root, "tests", "unit")):
        # a bare copy of the package without its tests: this workload is not available, the other classes decide
        os.chdir(old)
        ctx.event("repo_tests_unavailable")
        ctx.key(("repo-tests-unavailable", case["module"]))
        return
    try:
        try:
            mod = importlib.import_module(case["module"])
        except Exception as e:
            ctx.inconclusive("cannot import %s: %r" % (case["module"], e))
            return
        if not os.path.abspath(mod.__file__).startswith(os.path.realpath(root)) and not os.path.abspath(mod.__file__).startswith(root):
            ctx.inconclusive("test module %s imported from %s" % (case["module"], mod.__file__))
            return
        suite = unittest.defaultTestLoader.loadTestsFromModule(mod)
        for t in _walk(suite):
            cls, name = t.id().rsplit(".", 1)
            tid = cls + "::" + name
            if tid not in wanted:
                continue
            ctx.leak.take_offenders()
            s0 = ctx.leak.snap()
            r = unittest.TestResult()
            f0 = ctx.leak.frames
            with contextlib.redirect_stdout(io.StringIO()), contextlib.redirect_stderr(io.StringIO()):
                t.run(r)
            s1 = ctx.leak.snap()
            offs = [o for o in ctx.leak.take_offenders() if any(k in o["changed"] for k in fields)]
            ctx.event("repo_tests_run")
            ctx.event("repo_test_frames", ctx.leak.frames - f0)
            if not r.wasSuccessful():
                ctx.event("repo_tests_failing")        # not ours to judge
                ctx.notes.setdefault("failing_repo_tests", []).append(tid)
            ctx.require(clause, not offs, {"repo_test": tid, "offenders": offs[:3]},
                        mechanism=mech_prefix + (offs[0]["function"] if offs else ""))
            ctx.sub(("repo-test", tid), nontrivial=(ctx.leak.frames - f0) > 0)
            if s1 != s0:
                # the test itself (not a library frame) may leave state behind; put it back for the next test
                ctx.event("repo_tests_leaving_state")
                from qrv import worker
                from quantarhei import Manager
                worker._reset_manager(Manager(), ctx, ctx.leak)
    finally:
        os.chdir(old)
    ctx.key(("repo-tests", case["module"]))
    ctx.nontrivial(True)
